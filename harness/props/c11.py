"""C11 — every decoder terminates within a small bounded amount of work; Update.parse with in-range
length fields always returns a result object.

Oracle (on the implementation, no model involved): every decoder entry point is called on
  * every byte string of length <= 2 (and length 3: boundary third octets in the quick tier, all
    16.7 M strings for the loop-carrying decoders in the thorough tier),
  * the valid encodings harvested from the literals of yabgp/tests (read with `ast`, nothing is
    imported from the tests) fed to every decoder, with all 1-octet mutations (quick: a boundary
    value set per position) and 1-/2-octet length-like overwrites at every position, on the
    decoders that accept the encoding and wrapped into an UPDATE,
  * every registered link-state / prefix-SID TLV type x declared sub-length 0..16 x fill patterns,
  * seeded random and structure-biased strings up to 4096 octets,
each call under a CPU-time alarm (signal.setitimer(ITIMER_PROF) raising a BaseException subclass,
because yabgp's catch-alls swallow ordinary exceptions) inside a forked child with RLIMIT_AS
(the known endless loops allocate).  A call that exceeds the budget is re-run with twice the
budget before it is reported.  For Update.parse: any exception when both length fields are in
range is a violation; out of range the struct.error must escape (as modelled).

Correspondence (model vs implementation, evaluated inside Coq): for the walkers that have an
observable the number of iterations/elements and normal-vs-raised outcome of `run (body shape)`
is compared with the implementation on exhaustive short and random structured inputs.
"""
import ast
import glob
import json
import os
import resource
import signal
import struct
import sys
import tempfile
import time

import env  # noqa: F401  (stubs + repo on sys.path)
import common
from session import coq_bytes

COQ_TARGETS = ['props/C11.vo']
TRUSTED = ['harness/inventory.py: fail-closed ast pass producing gen/Inventory.v (loop, recursion-site and '
           'for-loop inventory); classification of `for` iterables as finite containers',
           'Python: slices clamp, struct.unpack raises on a wrong-size buffer, the CPU interval timer']
ASSUMPTIONS = ['model/YLoops.v transcribes by hand how many octets one iteration of each loop removes; tied to '
               'the source by the fingerprint lemma (any edit of a loop breaks it) and by the iteration-count '
               'correspondence of this check',
               'an element decoder called inside a loop body cannot change the remaining data (it only '
               'returns or raises): it is the universally quantified `raises` parameter of the theorems',
               'straight-line decoders (no while/recursion) are total; `for` loops iterate over finite '
               'containers (inventory classes 1-4)']
IMPORTS = 'From Coq Require Import String.\nFrom YV Require Import lib.Base model.YLoops.\n'

REPO = os.environ.get('YABGP_REPO', '/repo')
NPROC = int(os.environ.get('VERIF_JOBS', '16'))
MEM_LIMIT = 3 << 30


class CpuBudget(BaseException):
    pass


def _on_alarm(signum, frame):
    raise CpuBudget()


# ---------------------------------------------------------------------------------------------
# decoder entry points
# ---------------------------------------------------------------------------------------------
def decoders():
    """name -> callable(bytes).  Every parse/unpack entry point of yabgp/message."""
    from yabgp.message.update import Update
    from yabgp.message.open import Open, Capability
    from yabgp.message.notification import Notification
    from yabgp.message.keepalive import KeepAlive
    from yabgp.message.route_refresh import RouteRefresh
    from yabgp.message.attribute.origin import Origin
    from yabgp.message.attribute.aspath import ASPath
    from yabgp.message.attribute.nexthop import NextHop
    from yabgp.message.attribute.med import MED
    from yabgp.message.attribute.localpref import LocalPreference
    from yabgp.message.attribute.atomicaggregate import AtomicAggregate
    from yabgp.message.attribute.aggregator import Aggregator
    from yabgp.message.attribute.community import Community
    from yabgp.message.attribute.originatorid import OriginatorID
    from yabgp.message.attribute.clusterlist import ClusterList
    from yabgp.message.attribute.largecommunity import LargeCommunity
    from yabgp.message.attribute.mpreachnlri import MpReachNLRI
    from yabgp.message.attribute.mpunreachnlri import MpUnReachNLRI
    from yabgp.message.attribute.extcommunity import ExtCommunity
    from yabgp.message.attribute.pmsitunnel import PMSITunnel
    from yabgp.message.attribute.linkstate.linkstate import LinkState
    from yabgp.message.attribute.sr.bgpprefixsid import BGPPrefixSID
    from yabgp.message.attribute.sr.srv6.l3service import SRv6L3Service
    from yabgp.message.attribute.sr.srv6.sidinformation import SRv6SIDInformation
    from yabgp.message.attribute.nlri.ipv4_unicast import IPv4Unicast
    from yabgp.message.attribute.nlri.ipv6_unicast import IPv6Unicast
    from yabgp.message.attribute.nlri.ipv4_mpls_vpn import IPv4MPLSVPN
    from yabgp.message.attribute.nlri.ipv6_mpls_vpn import IPv6MPLSVPN
    from yabgp.message.attribute.nlri.ipv4_flowspec import IPv4FlowSpec
    from yabgp.message.attribute.nlri.ipv6_flowspec import IPv6FlowSpec
    from yabgp.message.attribute.nlri.labeled_unicast.ipv4 import IPv4LabeledUnicast
    from yabgp.message.attribute.nlri.labeled_unicast.ipv6 import IPv6LabeledUnicast
    from yabgp.message.attribute.nlri.evpn import (EVPN, EthernetAutoDiscovery, MacIPAdvertisment,
                                                   InclusiveMulticastEthernetTag, EthernetSegment, IPRoutePrefix)
    from yabgp.message.attribute.nlri.linkstate import BGPLS
    from yabgp.message.attribute.nlri import NLRI

    ap = {'ipv4': True, 'ipv6': True, 'ipv4_lu': True, 'ipv6_lu': True, 'vpnv4': True, 'vpnv6': True,
          'flowspec': True, 'evpn': True, 'bgpls': True}
    D = {}
    D['Update.parse'] = lambda b: Update.parse(None, b, False, None)
    D['Update.parse/asn4+addpath'] = lambda b: Update.parse(None, b, True, ap)
    D['Update.parse_prefix_list'] = lambda b: Update.parse_prefix_list(b, False)
    D['Update.parse_prefix_list/addpath'] = lambda b: Update.parse_prefix_list(b, True)
    D['Update.parse_attributes'] = lambda b: Update.parse_attributes(b, False, None)
    D['Update.parse_attributes/asn4+addpath'] = lambda b: Update.parse_attributes(b, True, ap)
    D['Open.parse'] = lambda b: Open().parse(b)
    D['Capability.parse'] = lambda b: Capability().parse(b)
    D['Notification.parse'] = lambda b: Notification().parse(b)
    D['RouteRefresh.parse'] = lambda b: RouteRefresh().parse(b)
    D['KeepAlive.parse'] = lambda b: KeepAlive().parse(b)
    for cls in (Origin, NextHop, MED, LocalPreference, AtomicAggregate, Community, OriginatorID, ClusterList,
                LargeCommunity, ExtCommunity, PMSITunnel):
        D['%s.parse' % cls.__name__] = (lambda b, cls=cls: cls.parse(b))
    D['ASPath.parse'] = lambda b: ASPath.parse(b, asn4=False)
    D['ASPath.parse/asn4'] = lambda b: ASPath.parse(b, asn4=True)
    D['Aggregator.parse'] = lambda b: Aggregator.parse(b, asn4=False)
    D['Aggregator.parse/asn4'] = lambda b: Aggregator.parse(b, asn4=True)
    D['MpReachNLRI.parse'] = lambda b: MpReachNLRI.parse(b, None)
    D['MpReachNLRI.parse/addpath'] = lambda b: MpReachNLRI.parse(b, ap)
    D['MpUnReachNLRI.parse'] = lambda b: MpUnReachNLRI.parse(b, None)
    D['MpUnReachNLRI.parse/addpath'] = lambda b: MpUnReachNLRI.parse(b, ap)
    D['LinkState.unpack'] = lambda b: LinkState.unpack(b, None)
    for pid in (1, 2, 3, 6):
        D['LinkState.unpack/proto%d' % pid] = (lambda b, pid=pid: LinkState.unpack(b, pid))
    D['BGPPrefixSID.unpack'] = lambda b: BGPPrefixSID.unpack(b)
    for cls in (IPv4Unicast, IPv6Unicast, IPv4LabeledUnicast, IPv6LabeledUnicast):
        D['%s.parse' % cls.__name__] = (lambda b, cls=cls: cls.parse(b, addpath=False))
        D['%s.parse/addpath' % cls.__name__] = (lambda b, cls=cls: cls.parse(b, addpath=True))
    for cls in (IPv4MPLSVPN, IPv6MPLSVPN):
        for a in (False, True):
            for w in (False, True):
                D['%s.parse%s%s' % (cls.__name__, '/addpath' if a else '', '/withdraw' if w else '')] = \
                    (lambda b, cls=cls, a=a, w=w: cls.parse(b, iswithdraw=w, addpath=a))
        D['%s.parse_rd' % cls.__name__] = (lambda b, cls=cls: cls.parse_rd(b))
    D['NLRI.parse_mpls_label_stack'] = lambda b: NLRI.parse_mpls_label_stack(b)
    D['MPLSVPN.parse_mpls_label_stack'] = lambda b: IPv4MPLSVPN.parse_mpls_label_stack(b)
    for cls in (IPv4FlowSpec, IPv6FlowSpec):
        D['%s.parse' % cls.__name__] = (lambda b, cls=cls: cls.parse(b))
        D['%s.parse_operators' % cls.__name__] = (lambda b, cls=cls: cls.parse_operators(b))
        D['%s.parse_prefix' % cls.__name__] = (lambda b, cls=cls: cls.parse_prefix(b))
    D['EVPN.parse'] = lambda b: EVPN.parse(b)
    for cls in (EthernetAutoDiscovery, MacIPAdvertisment, InclusiveMulticastEthernetTag, EthernetSegment,
                IPRoutePrefix):
        D['%s.parse' % cls.__name__] = (lambda b, cls=cls: cls.parse(b))
    D['BGPLS.parse'] = lambda b: BGPLS.parse(b)
    for t in (1, 2, 3, 4, 6):
        D['BGPLS.parse_nlri/type%d' % t] = (lambda b, t=t: BGPLS.parse_nlri(b, t))
    for p in (1, 3):
        D['BGPLS.parse_node_descriptor/proto%d' % p] = (lambda b, p=p: BGPLS.parse_node_descriptor(b, p))
    # every registered TLV class
    for t, k in sorted(LinkState.registered_tlvs.items()):
        if t in (1099, 1100, 1158, 1162, 1038):
            D['LS-TLV-%d(%s).unpack' % (t, k.__name__)] = (lambda b, k=k: k.unpack(b, 2))
        else:
            D['LS-TLV-%d(%s).unpack' % (t, k.__name__)] = (lambda b, k=k: k.unpack(b))
    for owner in (BGPPrefixSID, SRv6L3Service, SRv6SIDInformation):
        for t, k in sorted(owner.registered_tlvs.items()):
            D['%s-TLV-%d(%s).unpack' % (owner.__name__, t, k.__name__)] = (lambda b, k=k: k.unpack(b))
    return D


# decoders that contain (or reach) a loop: the expensive sweeps concentrate on these
LOOPY_PREFIXES = ('Update.', 'Open.', 'ASPath', 'Community', 'ClusterList', 'LargeCommunity', 'ExtCommunity',
                  'MpReach', 'MpUnReach', 'LinkState', 'BGPPrefixSID', 'IPv', 'NLRI.', 'MPLSVPN.', 'EVPN.parse',
                  'BGPLS', 'LS-TLV-1034', 'LS-TLV-1036', 'LS-TLV-1096', 'LS-TLV-1153', 'LS-TLV-1154', 'LS-TLV-1108',
                  'LS-TLV-1106', 'LS-TLV-1107', 'LS-TLV-1162', 'BGPPrefixSID-TLV', 'SRv6L3Service-TLV')


def loopy(name):
    return name.startswith(LOOPY_PREFIXES)


def update_in_range(b):
    return len(b) >= 2 and struct.unpack('!H', b[:2])[0] + 4 <= len(b)


# ---------------------------------------------------------------------------------------------
# guarded call
# ---------------------------------------------------------------------------------------------
def guarded(fn, data, budget):
    """returns (kind, detail, cpu) with kind in value|exception|timeout"""
    t0 = time.process_time()
    try:
        signal.setitimer(signal.ITIMER_PROF, budget)
        try:
            v = fn(data)
        finally:
            signal.setitimer(signal.ITIMER_PROF, 0)
        return 'value', v, time.process_time() - t0
    except CpuBudget:
        signal.setitimer(signal.ITIMER_PROF, 0)
        return 'timeout', None, time.process_time() - t0
    except Exception as e:  # noqa
        signal.setitimer(signal.ITIMER_PROF, 0)
        return 'exception', type(e).__name__, time.process_time() - t0


def inputs_of(spec, rng_seed):
    """a batch spec -> iterator of byte strings (generated in the child)"""
    kind = spec[0]
    if kind == 'list':
        for h in spec[1]:
            yield bytes.fromhex(h)
    elif kind == 'exh':            # ('exh', maxlen<=2)
        yield b''
        for a in range(256):
            yield bytes([a])
        if spec[1] >= 2:
            for a in range(256):
                for b in range(256):
                    yield bytes([a, b])
    elif kind == 'exh3':           # ('exh3', first-octet range lo, hi, third octets or None)
        thirds = spec[3] if spec[3] is not None else range(256)
        seconds = spec[4] if len(spec) > 4 else range(256)
        for a in range(spec[1], spec[2]):
            for b in seconds:
                for c in thirds:
                    yield bytes([a, b, c])
    elif kind == 'mut1':           # ('mut1', hex, values or None): all 1-octet substitutions
        base = bytes.fromhex(spec[1])
        vals = spec[2] if spec[2] is not None else range(256)
        for i in range(len(base)):
            for v in vals:
                if v != base[i]:
                    yield base[:i] + bytes([v]) + base[i + 1:]
    elif kind == 'mutlen':         # length-like overwrites: 1- and 2-octet fields at every position
        base = bytes.fromhex(spec[1])
        n = len(base)
        for i in range(n):
            rem = n - i - 1
            for v in {0, 1, 2, 3, 4, 5, 7, 8, 9, 16, 17, 32, 33, 127, 128, 240, 255,
                      rem & 255, (rem + 1) & 255, (rem - 1) & 255, (rem - 2) & 255, (2 * rem) & 255}:
                yield base[:i] + bytes([v]) + base[i + 1:]
            if i + 1 < n:
                rem = n - i - 2
                for v in {0, 1, 2, 3, 4, 5, 8, 255, 256, 4095, 4096, 0xf000, 0xffff,
                          rem, rem + 1, max(rem - 1, 0), max(rem - 4, 0), 2 * rem}:
                    yield base[:i] + struct.pack('!H', v & 0xffff) + base[i + 2:]
            # truncations and one-octet extension
        for i in range(n):
            yield base[:i]
        yield base + b'\x00'
    else:
        raise ValueError(kind)


def child_main(batch, budget, out_path):
    """runs in a forked child: batch = list of (decoder name, spec)"""
    resource.setrlimit(resource.RLIMIT_AS, (MEM_LIMIT, MEM_LIMIT))
    signal.signal(signal.SIGPROF, _on_alarm)
    D = decoders()
    res = {'calls': 0, 'values': 0, 'exceptions': {}, 'timeouts': [], 'raises': [], 'max_cpu': 0.0,
           'slowest': None, 'per_decoder': {}, 'aborted': []}
    for name, spec in batch:
        fn = D[name]
        is_update = name.startswith('Update.parse') and 'prefix' not in name and 'attributes' not in name
        n = nv = nto = 0
        if spec[0] == 'mutacc':
            base = bytes.fromhex(spec[1])
            kind, v, _ = guarded(fn, base, budget)
            ok = kind == 'value' and v is not None and \
                not (isinstance(v, (list, dict, bytes, str, tuple)) and len(v) == 0) and \
                not (is_update and isinstance(v, dict) and v.get('sub_error'))
            if kind == 'timeout':
                res['timeouts'].append([name, base.hex(), budget])
            if not ok:
                continue
            res['mutated'] = res.get('mutated', 0) + 1
            stream = list(inputs_of(('mut1', spec[1], spec[2]), 0)) + list(inputs_of(('mutlen', spec[1]), 0))
        else:
            stream = inputs_of(spec, 0)
        for data in stream:
            kind, detail, cpu = guarded(fn, data, budget)
            n += 1
            if cpu > res['max_cpu']:
                res['max_cpu'], res['slowest'] = cpu, [name, data.hex()[:200], len(data)]
            if kind == 'value':
                nv += 1
                if is_update and not (isinstance(detail, dict) and 'sub_error' in detail and 'attr' in detail):
                    res['raises'].append([name, data.hex(), 'no result object: %r' % (type(detail),)])
            elif kind == 'exception':
                res['exceptions'][detail] = res['exceptions'].get(detail, 0) + 1
                if is_update and update_in_range(data):
                    res['raises'].append([name, data.hex(), detail])
                if is_update and not update_in_range(data) and detail != 'error':
                    res['raises'].append([name, data.hex(), 'out of range but raised %s (model: struct.error)' % detail])
            else:
                # confirm with twice the budget (rules out an alarm that fired on the way out)
                k2, _, cpu2 = guarded(fn, data, 2 * budget)
                if k2 == 'timeout':
                    nto += 1
                    res['timeouts'].append([name, data.hex(), round(cpu + cpu2, 2)])
                    if nto >= 3:
                        res['aborted'].append([name, list(spec[:1])])
                        break
            if is_update and kind == 'value' and not update_in_range(data):
                res['raises'].append([name, data.hex(), 'out of range but returned (model: struct.error escapes)'])
        res['calls'] += n
        res['values'] += nv
        pd = res['per_decoder'].setdefault(name, [0, 0])
        pd[0] += n
        pd[1] += nv
    with open(out_path, 'w') as f:
        json.dump(res, f)


def run_batches(batches, budget, wall_limit):
    """fork one child per batch (NPROC at a time); returns list of per-batch results.
    A child that dies or overruns the wall limit is reported with its batch."""
    results = [None] * len(batches)
    tmpdir = tempfile.mkdtemp(prefix='c11_', dir=os.path.join(common.BUILD, 'run'))
    pending = list(range(len(batches)))
    running = {}
    t_end = time.time() + wall_limit
    while pending or running:
        while pending and len(running) < NPROC:
            i = pending.pop(0)
            out = os.path.join(tmpdir, '%d.json' % i)
            pid = os.fork()
            if pid == 0:
                try:
                    child_main(batches[i], budget, out)
                    os._exit(0)
                except BaseException as e:  # noqa
                    try:
                        with open(out + '.err', 'w') as f:
                            f.write(repr(e))
                    finally:
                        os._exit(3)
            running[pid] = (i, out, time.time())
        try:
            pid, status = os.waitpid(-1, os.WNOHANG)
        except ChildProcessError:
            pid = 0
        if pid:
            if pid in running:
                i, out, _ = running.pop(pid)
                if os.path.exists(out):
                    results[i] = json.load(open(out))
                else:
                    err = open(out + '.err').read() if os.path.exists(out + '.err') else 'status %d' % status
                    results[i] = {'dead': err, 'batch': [[n, list(s[:1])] for n, s in batches[i]][:5]}
        else:
            time.sleep(0.01)
        if time.time() > t_end:
            for pid, (i, out, _) in list(running.items()):
                os.kill(pid, signal.SIGKILL)
                os.waitpid(pid, 0)
                results[i] = {'dead': 'wall limit', 'batch': [[n, list(s[:1])] for n, s in batches[i]][:5]}
            for i in pending:
                results[i] = {'dead': 'not started (wall limit)', 'batch': []}
            running, pending = {}, []
    for f in glob.glob(os.path.join(tmpdir, '*')):
        os.remove(f)
    os.rmdir(tmpdir)
    return results


# ---------------------------------------------------------------------------------------------
# corpus of valid encodings: bytes literals of the unit tests (ast only), yabgp's own constructors
# ---------------------------------------------------------------------------------------------
def harvest_corpus():
    out = set()

    def ev(n):
        if isinstance(n, ast.Constant) and isinstance(n.value, bytes):
            return n.value
        if isinstance(n, ast.BinOp) and isinstance(n.op, ast.Add):
            a, b = ev(n.left), ev(n.right)
            if a is not None and b is not None:
                return a + b
        return None
    for f in sorted(glob.glob(os.path.join(REPO, 'yabgp/tests/**/*.py'), recursive=True)):
        try:
            tree = ast.parse(open(f).read())
        except SyntaxError:
            continue
        for n in ast.walk(tree):
            v = ev(n)
            if v is not None and 1 <= len(v) <= 4096:
                out.add(v)
            if isinstance(n, ast.Constant) and isinstance(n.value, str) and len(n.value) >= 8 \
                    and len(n.value) % 2 == 0 and all(c in '0123456789abcdefABCDEF' for c in n.value):
                out.add(bytes.fromhex(n.value))
    # strip BGP headers: the decoders take bodies
    extra = set()
    for v in out:
        if v[:16] == b'\xff' * 16 and len(v) >= 19:
            extra.add(v[19:])
    return sorted(out | extra, key=lambda b: (len(b), b))


def constructed_corpus():
    """encodings produced by yabgp's own constructors"""
    from yabgp.message.update import Update
    from yabgp.message.open import Open
    out = []
    msgs = [
        {'attr': {1: 0, 2: [(2, [65001, 65002]), (1, [3, 4])], 3: '10.0.0.1', 4: 10, 5: 100, 8: ['NO_EXPORT', '1:2'],
                  9: '1.1.1.1', 10: ['1.1.1.1', '2.2.2.2']}, 'nlri': ['10.1.0.0/16', '10.2.3.0/24', '1.2.3.4/32']},
        {'withdraw': ['10.1.0.0/16', '192.168.1.0/25']},
        {'attr': {1: 0, 2: [], 5: 100, 14: {'afi_safi': (2, 1), 'nexthop': '2001:db8::1',
                                               'nlri': ['2001:db8:1::/48', '2001:db8:2:3::/64']}}},
        {'attr': {15: {'afi_safi': (2, 1), 'withdraw': ['2001:db8:1::/48']}}},
        {'attr': {1: 0, 2: [], 5: 100, 16: ['route-target:1:1', 'route-origin:1.1.1.1:2'],
                  14: {'afi_safi': (1, 128), 'nexthop': {'rd': '0:0', 'str': '2.2.2.2'},
                       'nlri': [{'label': [25], 'rd': '100:100', 'prefix': '11.11.11.11/32'}]}}},
        {'attr': {1: 0, 2: [], 5: 100, 32: ['1:2:3', '4:5:6']}, 'nlri': ['1.0.0.0/8']},
    ]
    for m in msgs:
        for asn4 in (False, True):
            try:
                out.append(Update.construct(m, asn4)[19:])
            except Exception:
                pass
    try:
        o = Open(version=4, asn=65001, hold_time=180, bgp_id='1.1.1.1')
        caps = {'four_bytes_as': True, 'route_refresh': True, 'cisco_route_refresh': True, 'graceful_restart': True,
                'afi_safi': [(1, 1), (2, 1), (1, 128)], 'add_path': 'ipv4_both', 'enhanced_route_refresh': True,
                'cisco_multi_session': True}
        out.append(o.construct(caps)[19:])
    except Exception:
        pass
    return [b for b in out if b]


def wrap_update(attr_type, value, flags=None):
    """an UPDATE body carrying one path attribute"""
    if flags is None:
        flags = 0x90 if len(value) > 255 else 0x80
    if flags & 0x10:
        attr = struct.pack('!BBH', flags, attr_type, len(value)) + value
    else:
        attr = struct.pack('!BBB', flags, attr_type, len(value) & 255) + value
    return struct.pack('!H', 0) + struct.pack('!H', len(attr)) + attr


def ls_tlv_cases(rng, thorough):
    """every registered link-state / prefix-SID TLV type x declared (sub-)length 0..16 x fills;
    returns {decoder name: [inputs]} (as LinkState attribute value, and wrapped in an UPDATE)"""
    from yabgp.message.attribute.linkstate.linkstate import LinkState
    from yabgp.message.attribute.sr.bgpprefixsid import BGPPrefixSID
    from yabgp.message.attribute.sr.srv6.l3service import SRv6L3Service
    from yabgp.message.attribute.sr.srv6.sidinformation import SRv6SIDInformation
    ls, upd, direct = [], [], {}
    fills = [lambda n: b'\x00' * n, lambda n: b'\xff' * n, lambda n: bytes(range(1, n + 1)),
             lambda n: bytes(rng.randrange(256) for _ in range(n))]
    types = sorted(LinkState.registered_tlvs)
    for t in types + [0, 9999]:
        for L in range(17):
            for fi, fill in enumerate(fills):
                body = fill(L)
                ls.append(struct.pack('!HH', t, L) + body)                 # exact
                if fi == 0:
                    ls.append(struct.pack('!HH', t, L) + fill(max(L - 1, 0)))  # declared > present
                    ls.append(struct.pack('!HH', t, L) + fill(L) + struct.pack('!HH', t, 0))
        # value long enough for the fixed part, with a 2-octet sub-length s at every offset
        for s in range(17):
            for off in (range(0, 34) if thorough else (0, 1, 2, 4, 5, 6, 7, 8, 20, 22, 24, 26, 28, 30)):
                for total in (off + 2, off + 2 + s, 40, 64):
                    if total < off + 2:
                        continue
                    v = bytearray(total)
                    v[off:off + 2] = struct.pack('!H', s)
                    ls.append(struct.pack('!HH', t, total) + bytes(v))
    for v in ls:
        if len(v) < 250:
            upd.append(wrap_update(29, v))
    # one-level nesting of the SRv6 sub-TLV carriers: every registered type inside 1106/1107/1162
    for outer, fixed in ((1106, 22), (1107, 28), (1162, 8)):
        for t in types:
            for L in (0, 1, 3, 4, 7, 8, 16):
                inner = struct.pack('!HH', t, L) + b'\x00' * L
                v = b'\x00' * fixed + inner
                ls.append(struct.pack('!HH', outer, len(v)) + v)
    # deep nesting: a carrier inside a carrier inside ... (sub-TLVs are resolved through the same table, so a chain
    # is well-formed input); decoding work must stay linear in the input whatever the depth
    carriers = ((1106, 22), (1107, 28), (1162, 8))
    for depth in (8, 20, 40, 100, 130):
        for start in range(len(carriers)):
            for mixed in (False, True):
                v = b''
                for k in range(depth):
                    outer, fixed = carriers[(start + (k if mixed else 0)) % len(carriers)]
                    nv = b'\x00' * fixed + v
                    if len(nv) + 4 > 4000:
                        break
                    v = struct.pack('!HH', outer, len(nv)) + nv
                ls.append(v)
    ps = []
    for owner, hdr in ((BGPPrefixSID, b''), (SRv6L3Service, b'\x00'), (SRv6SIDInformation, b'\x00' * 21)):
        for t in sorted(owner.registered_tlvs) + [0, 200]:
            for L in range(17):
                for fill in fills:
                    ps.append(struct.pack('!BH', t, L) + fill(L))
                ps.append(struct.pack('!BH', t, L) + b'\x00' * max(L - 1, 0))
    direct['LinkState.unpack'] = ls
    direct['LinkState.unpack/proto2'] = ls
    direct['LinkState.unpack/proto3'] = ls if thorough else ls[::5]
    direct['Update.parse'] = upd
    direct['BGPPrefixSID.unpack'] = ps
    direct['Update.parse/asn4+addpath'] = [wrap_update(40, v, 0xc0) for v in ps]
    return direct


def random_inputs(rng, n, corpus, maxlen=4096):
    """seeded random strings up to maxlen: uniform, small-value biased (many short elements, so the
    loops iterate often), repeated corpus fragments, spliced corpus items"""
    out = []
    small = [0, 0, 0, 1, 1, 2, 3, 4, 4, 5, 7, 8, 8, 16, 24, 32, 64, 128, 240, 255]
    for i in range(n):
        mode = i % 5
        ln = rng.choice([rng.randrange(0, 64), rng.randrange(0, 512), rng.randrange(0, maxlen + 1), maxlen])
        if mode == 0:
            b = bytes(rng.randrange(256) for _ in range(ln))
        elif mode == 1:
            b = bytes(rng.choice(small) for _ in range(ln))
        elif mode == 2 and corpus:
            frag = rng.choice(corpus)
            b = (frag * (ln // max(len(frag), 1) + 1))[:ln]
        elif mode == 3 and corpus:
            b = b''
            while len(b) < ln:                       # bounded: every step appends >= 1 octet
                c = rng.choice(corpus)
                i0 = rng.randrange(len(c))
                b += c[i0:i0 + rng.randrange(1, 40)] or b'\x00'
            b = b[:ln]
        else:
            k = rng.choice([1, 2, 3, 4, 7, 8])
            unit = bytes(rng.choice(small) for _ in range(k))
            b = (unit * (ln // k + 1))[:ln]
        out.append(b)
    return out


# ---------------------------------------------------------------------------------------------
# correspondence: iteration counts of the model walkers vs the implementation
# ---------------------------------------------------------------------------------------------
def walker_table():
    """(label, Coq shape expression, implementation thunk -> number of elements, input->model input)"""
    from yabgp.message.update import Update
    from yabgp.message.attribute.aspath import ASPath
    from yabgp.message.attribute.clusterlist import ClusterList
    from yabgp.message.attribute.community import Community
    from yabgp.message.attribute.largecommunity import LargeCommunity
    from yabgp.message.attribute.nlri.ipv4_unicast import IPv4Unicast
    from yabgp.message.attribute.nlri.ipv4_flowspec import IPv4FlowSpec
    from yabgp.message.attribute.nlri import NLRI
    from yabgp.message.attribute.linkstate.linkstate import LinkState
    from yabgp.message.attribute.sr.bgpprefixsid import BGPPrefixSID
    R = LinkState.registered_tlvs

    def words(k):
        def f(b):
            if len(b) % k:
                return None
            return [int.from_bytes(b[i:i + k], 'big') for i in range(0, len(b), k)]
        return f
    ident = lambda b: list(b)  # noqa: E731
    T = [
        ('ClusterList.parse', 'fixed_strict 4', lambda b: len(ClusterList.parse(b)), ident, 'any'),
        ('SRLGList.unpack', 'fixed_strict 4', lambda b: len(R[1096].unpack(b).value), ident, 'any'),
        ('IGPRouteTagList.unpack', 'fixed_strict 4', lambda b: len(R[1153].unpack(b).value), ident, 'any'),
        ('ExtIGPRouteTagList.unpack', 'fixed_strict 8', lambda b: len(R[1154].unpack(b).value), ident, 'any'),
        ('Community.parse', 'fixed_strict 2', lambda b: len(Community.parse(b)), words(2), 'any'),
        ('LargeCommunity.parse', 'fixed_strict 3', lambda b: len(LargeCommunity.parse(b)), words(4), 'any'),
        ('ASPath.parse', 'aspath 2', lambda b: len(ASPath.parse(b, asn4=False)), ident, 'any'),
        ('ASPath.parse/asn4', 'aspath 4', lambda b: len(ASPath.parse(b, asn4=True)), ident, 'any'),
        ('Update.parse_prefix_list', 'prefix4 false', lambda b: len(Update.parse_prefix_list(b, False)), ident, 'any'),
        ('Update.parse_prefix_list/addpath', 'prefix4 true', lambda b: len(Update.parse_prefix_list(b, True)),
         ident, 'any'),
        ('IPv4Unicast.parse', 'prefix4 false', lambda b: len(IPv4Unicast.parse(b, False)), ident, 'any'),
        ('NLRI.parse_mpls_label_stack', 'label_stack', lambda b: len(NLRI.parse_mpls_label_stack(b)), ident, 'any'),
        ('IPv4FlowSpec.parse_operators', 'operators', lambda b: len(IPv4FlowSpec.parse_operators(b)[0]), ident, 'any'),
        # TLV walkers, element decoders that cannot raise: unregistered type codes only
        ('LinkState.unpack(unregistered types)', 'tlv 4 2 2', lambda b: len(LinkState.unpack(b).value), ident, 'ls'),
        ('BGPPrefixSID.unpack(unregistered types)', 'tlv 3 1 2', lambda b: len(BGPPrefixSID.unpack(b)),
         ident, 'ps'),
        ('SRCapabilities.unpack', 'srcap', lambda b: len(R[1034].unpack(b'\x00\x00' + b).value['value']), ident, 'sr'),
        ('SRLB.unpack', 'srcap', lambda b: len(R[1036].unpack(b'\x00\x00' + b).value), ident, 'sr'),
    ]
    return T


def walker_inputs(rng, kind, thorough):
    n_rand = 400 if thorough else 120
    out = [b'']
    if kind == 'any':
        out += [bytes([a]) for a in range(0, 256, 1 if thorough else 5)]
        out += [bytes([a, b]) for a in (0, 1, 2, 3, 4, 5, 8, 24, 32, 33, 128, 255) for b in (0, 1, 2, 3, 4, 8, 255)]
        small = [0, 0, 1, 1, 2, 2, 3, 4, 4, 8, 16, 24, 25, 32, 33, 129, 255]
        for _ in range(n_rand):
            ln = rng.randrange(0, 48)
            out.append(bytes(rng.choice(small) for _ in range(ln)))
        for _ in range(n_rand // 3):
            out.append(bytes(rng.randrange(256) for _ in range(rng.randrange(0, 24))))
    elif kind in ('ls', 'ps'):
        for _ in range(n_rand):
            b = b''
            for _k in range(rng.randrange(0, 6)):
                L = rng.choice([0, 0, 1, 2, 3, 4, 8, 20])
                declared = rng.choice([L, L, L, L + 1, max(L - 1, 0), 300])
                if kind == 'ls':
                    b += struct.pack('!HH', rng.choice([0, 5, 9000, 65535]), declared) + bytes(L)
                else:
                    b += struct.pack('!BH', rng.choice([0, 2, 7, 200]), declared) + bytes(L)
            cut = rng.choice([0, 0, 0, 1, 2, 3])
            out.append(b[:len(b) - cut] if cut else b)
    elif kind == 'sr':
        for _ in range(n_rand):
            b = b''
            for _k in range(rng.randrange(0, 5)):
                L = rng.choice([3, 3, 4, 4, 0, 1, 2, 5, 9])
                b += bytes([0, 0, rng.randrange(256), 4, 137]) + struct.pack('!H', L) + bytes(rng.choice([L, L, L, L + 1]))
            cut = rng.choice([0, 0, 0, 1, 2, 5])
            out.append(b[:len(b) - cut] if cut else b)
    return sorted(set(out), key=lambda b: (len(b), b))


def correspondence(ctx):
    """returns (n cases, mismatches, samples)"""
    cases = []     # (label, shape, input bytes, model input list, impl outcome)
    signal.signal(signal.SIGPROF, _on_alarm)
    for label, shape, impl, conv, kind in walker_table():
        hung = 0
        for b in walker_inputs(ctx.rng, kind, ctx.thorough):
            mi = conv(b)
            if mi is None:
                continue
            if hung >= 3:
                break
            kind, k, _ = guarded(impl, b, 0.5)
            if kind == 'timeout':
                hung += 1
            o = [0, k] if kind == 'value' else ([1] if kind == 'exception' else [2])
            cases.append((label, shape, b, mi, o))
    if not ctx.coq_ok:
        return len(cases), [], []
    per = 300
    shards = []
    for i in range(0, len(cases), per):
        rows = []
        for label, shape, b, mi, o in cases[i:i + per]:
            exp = 'SL [SN 0; SN %d]' % o[1] if o[0] == 0 else 'SL [SN %d]' % o[0]
            rows.append('(sx_run (%s) [%s], %s)' % (shape, ';'.join(str(x) for x in mi), exp))
        shards.append('Definition sx_run (s : shape) (d : bytes) : sx :=\n'
                      '  match run (body s never) (S (List.length d)) d with\n'
                      '  | Done n => SL [SN 0; SN (N.of_nat n)] | Raised _ => SL [SN 1] | OutOfFuel => SL [SN 2] end.\n'
                      'Definition cases : list (sx * sx) := [\n%s\n].\nEval vm_compute in (mismatches cases).\n'
                      % ';\n'.join(rows))
    mism = []
    for k, (rc, out) in enumerate(common.coq_eval_shards(ctx.prop, shards, imports=IMPORTS)):
        idx = common.parse_nats(out)
        if rc != 0 or idx is None:
            mism.append({'what': 'case file %d does not evaluate: %s' % (k, common.first_error(out))})
            continue
        for i in idx:
            label, shape, b, mi, o = cases[k * per + i]
            mism.append({'what': 'iteration count / outcome of model walker `%s` and %s differ on %s'
                                 % (shape, label, b.hex()),
                         'input': [label, b.hex()], 'impl': o, 'model_expr': shape})
    samples = [[c[0], c[2].hex(), c[4]] for c in cases[:2] + cases[len(cases) // 2:len(cases) // 2 + 2]]
    return len(cases), mism, samples


# ---------------------------------------------------------------------------------------------
# the check
# ---------------------------------------------------------------------------------------------
BOUNDARY = [0, 1, 2, 3, 4, 5, 7, 8, 9, 15, 16, 17, 24, 25, 31, 32, 33, 63, 64, 127, 128, 129, 239, 240, 254, 255]


THIRD_THOROUGH = sorted(set(BOUNDARY) | set(range(0, 129, 8)) | {6, 10, 12, 13, 14, 20, 34, 37, 48, 96, 200, 241})
FULL3 = ('Update.parse_prefix_list', 'LS-TLV-1034(SRCapabilities).unpack', 'LS-TLV-1036(SRLB).unpack',
         'NLRI.parse_mpls_label_stack')


def build_batches(ctx):
    rng = ctx.rng
    names = sorted(decoders())
    corpus = harvest_corpus()
    built = constructed_corpus()
    corpus_all = sorted((set(corpus) | set(built)) - {b''}, key=lambda b: (len(b), b))
    batches = []
    info = {'decoders': len(names), 'corpus_from_tests': len(corpus), 'corpus_constructed': len(built)}
    # (1) exhaustive short inputs
    grp = []
    for n in names:
        grp.append((n, ('exh', 2)))
        if len(grp) == 4:
            batches.append(grp)
            grp = []
    if grp:
        batches.append(grp)
    n3 = 0
    for n in names:
        if not loopy(n):
            continue
        if ctx.thorough:
            full = n in FULL3
            for lo in range(0, 256, 32):
                batches.append([(n, ('exh3', lo, lo + 32, None if full else THIRD_THOROUGH))])
            n3 += 1
        else:
            batches.append([(n, ('exh3', 0, 256, BOUNDARY[::2], BOUNDARY))])
            n3 += 1
    info['exhaustive_len2_decoders'] = len(names)
    info['len3_decoders'] = n3
    info['len3_mode'] = ('all first two octets x %d third octets; all 2^24 for %s' % (len(THIRD_THOROUGH), ', '.join(FULL3))) if ctx.thorough else 'all first octets x %d boundary second x %d boundary third octets' % (len(BOUNDARY), len(BOUNDARY[::2]))
    n_sweep = len(batches)
    # (2) corpus on every decoder
    hexes = [c.hex() for c in corpus_all]
    for i in range(0, len(names), 6):
        batches.append([(n, ('list', hexes)) for n in names[i:i + 6]])
    # (3) mutations of the valid encodings, on the loop-carrying decoders that ACCEPT the encoding
    #     (acceptance is decided in the child: the parent never calls a decoder itself)
    mnames = [n for n in names if loopy(n) or n.startswith(('Update.', 'Open.'))]
    pairs = [(c, n) for c in corpus_all if len(c) <= (400 if ctx.thorough else 160) for n in mnames]
    rng.shuffle(pairs)
    if not ctx.thorough:
        pairs = pairs[:4000]
    info['mutation_candidate_pairs'] = len(pairs)
    info['mutation_values_per_octet'] = 256 if ctx.thorough else len(BOUNDARY)
    step = 40 if ctx.thorough else 80
    for i in range(0, len(pairs), step):
        batches.append([(n, ('mutacc', c.hex(), None if ctx.thorough else BOUNDARY)) for c, n in pairs[i:i + step]])
    # (4) link-state / prefix-SID TLV types x sub-lengths
    tl = ls_tlv_cases(rng, ctx.thorough)
    info['ls_tlv_cases'] = {k: len(v) for k, v in tl.items()}
    for n, lst in tl.items():
        for i in range(0, len(lst), 20000):
            batches.append([(n, ('list', [x.hex() for x in lst[i:i + 20000]]))])
    # (5) random up to 4096 octets
    per = 400 if ctx.thorough else 40
    rnd = random_inputs(rng, per * 8, corpus_all)
    info['random_inputs_per_decoder'] = per
    info['random_max_len'] = max(len(b) for b in rnd)
    for i, n in enumerate(names):
        if n.startswith('LS-TLV') and not loopy(n) and not ctx.thorough:
            sel = rnd[(i % 8) * per:(i % 8) * per + per // 4]
        else:
            sel = rnd[(i % 8) * per:(i % 8 + 1) * per]
        batches.append([(n, ('list', [b.hex() for b in sel]))])
        if n.startswith('Update.parse') and 'prefix' not in n and 'attributes' not in n:
            # in-range UPDATE bodies with random parts
            ups = []
            for b in sel:
                wl = rng.choice([0, 0, min(len(b), rng.randrange(0, 40))])
                rest = b[wl:]
                al = rng.choice([len(rest), len(rest), rng.randrange(0, len(rest) + 1), len(rest) + 5])
                u = struct.pack('!H', wl) + b[:wl] + struct.pack('!H', al & 0xffff) + rest
                ups.append(u[:4096].hex())
            batches.append([(n, ('list', ups))])
    # wrapped attributes: every corpus item as the value of every attribute type the dispatcher knows
    wrapped = []
    for c in corpus_all:
        if len(c) <= 300:
            for t in (2, 8, 10, 14, 15, 16, 17, 22, 29, 32, 40):
                wrapped.append(wrap_update(t, c).hex())
    info['wrapped_updates'] = len(wrapped)
    for i in range(0, len(wrapped), 4000):
        batches.append([('Update.parse', ('list', wrapped[i:i + 4000]))])
        batches.append([('Update.parse/asn4+addpath', ('list', wrapped[i:i + 4000]))])
    # the targeted batches first, the exhaustive sweeps (section 1) last
    batches = batches[n_sweep:] + batches[:n_sweep]
    return batches, info


KNOWN_HANG_TLVS = ()     # none: the SRCapabilities/SRLB hang is repaired by build/proposed/c11-srcap-srlb.diff


def inventory_diff():
    """readable difference between gen/Inventory.v and model/YLoops.v (for the replay file when the
    inventory lemma no longer checks)"""
    import re
    try:
        gen = open(os.path.join(common.COQ, 'gen', 'Inventory.v')).read()
        mod = open(os.path.join(common.COQ, 'model', 'YLoops.v')).read()
    except IOError as e:
        return ['cannot read inventory: %s' % e]
    sec = gen[gen.index('Definition gen_loops'):gen.index('Definition gen_rec_sites')]
    g = {(f, q, int(fp)): c for f, q, c, fp in
         re.findall(r'\(\* (\S+) (\S+): while (.*?) \*\)\n\s*\(\[[0-9;]*\], \[[0-9;]*\], (\d+), \d+\)', sec)}
    m = {(f, q, int(fp)) for f, q, fp in re.findall(r'\("([^"]+)", "([^"]+)", (\d+), \d+, \[', mod)}
    out = ['in the source but not modelled: %s %s `while %s` (fingerprint %d)' % (k[0], k[1], g[k], k[2])
           for k in sorted(set(g) - m)]
    out += ['modelled but not in the source (edited or removed): %s %s (fingerprint %d)' % k for k in sorted(m - set(g))]
    return out


def run(ctx):
    t0 = time.time()
    budget = 1.0 if ctx.thorough else 0.5
    batches, info = build_batches(ctx)
    # big batches first
    results = run_batches(batches, budget, wall_limit=(780 if ctx.thorough else 75) - (time.time() - t0))
    viol, calls, values, exc, maxcpu, slow = [], 0, 0, {}, 0.0, None
    mutated = 0
    perdec = {}
    for r in results:
        if r is None or 'dead' in r:
            viol.append({'what': 'decoder batch did not finish (%s): CPU/memory guard of the whole batch hit'
                                 % (r or {}).get('dead'), 'input': (r or {}).get('batch'), 'known': None})
            continue
        calls += r['calls']
        values += r['values']
        for k, v in r['exceptions'].items():
            exc[k] = exc.get(k, 0) + v
        if r['max_cpu'] > maxcpu:
            maxcpu, slow = r['max_cpu'], r['slowest']
        for k, (a, b) in r['per_decoder'].items():
            p = perdec.setdefault(k, [0, 0])
            p[0] += a
            p[1] += b
        mutated += r.get('mutated', 0)
        for name, hx, cpu in r['timeouts']:
            viol.append({'what': '%s does not finish within the CPU budget (%.1f s, twice) on a %d-octet input'
                                 % (name, budget, len(hx) // 2),
                         'decoder': name, 'input': hx, 'cpu_s': cpu, 'known': None})
        for name, hx, what in r['raises']:
            viol.append({'what': '%s: %s' % (name, what), 'decoder': name, 'input': hx, 'known': None})
    # de-duplicate violations per (decoder, kind), keep the shortest input
    best = {}
    for v in viol:
        key = (v.get('decoder'), v['what'].split(' on a ')[0][:80])
        if key not in best or len(str(v.get('input'))) < len(str(best[key].get('input'))):
            best[key] = v
    viol = sorted(best.values(), key=lambda v: (0 if v.get('decoder') else 1, len(str(v.get('input')))))
    ncases, mism, samples = correspondence(ctx)
    if not ctx.coq_ok:
        for line in inventory_diff():
            mism.append({'what': 'loop inventory: ' + line})
    # work bound actually observed: the slowest single call
    extra = dict(info)
    extra.update({'oracle_calls': calls, 'calls_returning_a_value': values, 'exception_classes': exc,
                  'cpu_budget_s': budget, 'max_cpu_single_call_s': round(maxcpu, 4), 'slowest_call': slow,
                  'batches': len(batches), 'correspondence_cases': ncases, 'mutated_pairs_accepted': mutated,
                  'decoders_exercised': len(perdec),
                  'decoders_never_returning_a_value': sorted(k for k, (a, b) in perdec.items() if b == 0)[:40],
                  'loops_in_inventory': 41, 'loops_modelled': 41, 'unmodelled_loops': [],
                  'recursive_call_sites': 3})
    return {'evaluations': calls + ncases, 'distinct': values,
            'rule': 'exhaustive <=2-octet strings (+3-octet sweep) per decoder, test-suite and constructor encodings '
                    'with 1-octet / length-field mutations, registered TLV types x sub-length 0..16, seeded random up '
                    'to 4096 octets; every call under a CPU alarm; non-trivial = the decoder returned a value',
            'samples': samples + ([slow] if slow else []), 'mismatches': mism, 'violations': viol, 'extra': extra}


def replay(ctx, obj):
    """re-run one stored violation: {'violation': {'decoder': name, 'input': hex}}"""
    v = obj.get('violation', obj)
    name, hx = v.get('decoder'), v.get('input')
    if not name or not isinstance(hx, str):
        print('nothing to replay in', obj)
        return 2
    signal.signal(signal.SIGPROF, _on_alarm)
    pid = os.fork()
    if pid == 0:
        resource.setrlimit(resource.RLIMIT_AS, (MEM_LIMIT, MEM_LIMIT))
        kind, detail, cpu = guarded(decoders()[name], bytes.fromhex(hx), 2.0)
        print('%s on %s: %s %s (cpu %.2fs)' % (name, hx[:120], kind, detail if kind != 'value' else '', cpu))
        bad = kind == 'timeout' or (kind == 'exception' and name.startswith('Update.parse')
                                    and 'prefix' not in name and 'attributes' not in name
                                    and update_in_range(bytes.fromhex(hx)))
        os._exit(1 if bad else 0)
    _, st = os.waitpid(pid, 0)
    rc = os.WEXITSTATUS(st) if os.WIFEXITED(st) else 1
    print('VIOLATION reproduced' if rc else 'not reproduced')
    return rc
