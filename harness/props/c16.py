"""C16 - REST surface authenticated, state-gated, faithful.

Exhaustive sweep of the LIVE Flask application (yabgp.api.app.app) through Flask's test client
against a real BGPPeering/FSM/BGP on the simulated reactor:

    every rule of app.url_map  x  {GET, POST, PUT, DELETE, PATCH, HEAD, OPTIONS}
      x  {no credentials, wrong user, wrong password, ... , right credentials}
      x  every session state (Idle, Connect, OpenSent, OpenConfirm, Established, Idle after
         manual stop, Idle after loss, Established on a second connection, ...)
      x  {eBGP, iBGP}

plus, for the routes that send, the message spaces (IPv4 unicast UPDATEs with boundary values,
MP_REACH/MP_UNREACH dictionaries of the unit tests, raw binary updates, route refresh).

Two independent judgements per request:
  * property oracle (no model): 401 + no effect without valid credentials; no BGP message written
    unless Established; the send endpoints report failure and change nothing unless Established;
    a send reported successful has put exactly one message - the requested one (for UPDATEs: plus
    LOCAL_PREF 100 only on iBGP and only if absent) - on the transport of the connection the FSM
    tracks;
  * correspondence: response class, outputs and complete abstract session state after the request
    equal coq/model/YRest.v's [rest_step] evaluated inside Coq on the same world and request.
"""
import base64
import copy
import json
import os
import struct
import time

import env  # noqa: F401  (stubs + repo on sys.path)
from yabgp.api.app import app  # must be imported before oslo.config parses its (empty) command line
import common
import session
import explore
from session import Bytes, coq_sx, coq_bytes

COQ_TARGETS = ['props/C16.vo']
TRUSTED = ['Flask / Werkzeug routing (405, automatic HEAD and OPTIONS, request.json -> 415 without a JSON body) and '
           'Flask-HTTPAuth Basic authentication, as installed in /venv; exercised, not verified',
           'harness/inventory_rest.py (fail-closed generator of coq/gen/RestInventory.v from the live url_map, '
           'decorator chains read from the source AND from the live __wrapped__ chain)']
ASSUMPTIONS = ['model/YRest.v is hand-written; its route table is proved equal to the generated inventory and its '
               'behaviour is tied to the application by the exhaustive sweep of this check',
               'Update().construct is a parameter of the model (a finite table filled from the real codec per run); '
               'its correctness is C06/C07/C08, not C16',
               'the extended-community text re-combination of v1.py is treated as part of request decoding: the '
               'abstract UPDATE of the model is the message after it (exercised with examples)',
               'C16_send_exact assumes the FSM tracks a connected transport while Established (a C01/C12 invariant); '
               'the sweep checks it in every Established state it reaches',
               'CONF.bgp.rib is False (default): the adj-rib-out bookkeeping of send/update is not modelled']
IMPORTS = ('From Coq Require Import String.\n'
           'From YV Require Import lib.Base model.YWorld model.YProto gen.Consts gen.FsmGen '
           'model.YSession model.YSessionSx gen.RestInventory model.YRest.\n'
           'Open Scope string_scope.\n')

PEER_IP = '10.0.0.2'
METHODS = ['GET', 'POST', 'PUT', 'DELETE', 'PATCH', 'HEAD', 'OPTIONS']
R401, RNOTESTAB, ROK, RFAIL, R405, RERR, ROPTIONS, RHEAD200 = range(8)
CLASS_NAME = ['401', 'not-established', 'ok', 'fail', '405', 'http-error', 'options', 'head-200']
GATE_TEXT = "Please check the peer's state"

MSGS = None


def msgs(remote_as):
    return dict(explore.messages(remote_as))


# ---------------------------------------------------------------------------------------------
# session states: name -> event prefix
# ---------------------------------------------------------------------------------------------
def state_prefixes(remote_as):
    m = msgs(remote_as)
    est = [('boot',), ('connok', 0), ('data', 0, m['open_ok']), ('data', 0, m['keepalive'])]
    p = {
        'idle_fresh': [],
        'connect': [('boot',)],
        'opensent': est[:2],
        'openconfirm': est[:3],
        'established': est,
        'idle_manual_stop': est + [('stop',)],
        'idle_after_loss': est + [('lost', 0)],
        'idle_connect_failed': [('boot',), ('connfail', 0)],
        'established_second_conn': est + [('lost', 0), ('fire', 'TIdleHold'), ('connok', 1),
                                          ('data', 1, m['open_ok']), ('data', 1, m['keepalive'])],
        'stopped_attempt_pending': [('boot',), ('stop',)],
        # Established with a peer that sent no capability at all / only route-refresh + IPv4 unicast:
        # 2-octet AS encoding on the connection, no (cisco) route refresh resp. only type 5
        'established_no_caps': est[:2] + [('data', 0, m['open_noopt']), ('data', 0, m['keepalive'])],
        'established_2byte_as': est[:2] + [
            ('data', 0, explore.frame(1, explore.open_body(asn=remote_as, caps=(
                b'\x02\x06\x01\x04\x00\x01\x00\x01', b'\x02\x02\x02\x00')))),
            ('data', 0, m['keepalive'])],
    }
    return p


EXPECTED_FSM = {'idle_fresh': 1, 'connect': 2, 'opensent': 4, 'openconfirm': 5,
                'established': 6, 'idle_manual_stop': 1, 'idle_after_loss': 1, 'idle_connect_failed': 1,
                'established_second_conn': 6, 'stopped_attempt_pending': 1,
                'established_no_caps': 6, 'established_2byte_as': 6}
REDUCED_IN_QUICK = ('established_no_caps', 'established_2byte_as')   # quick: the four credential kinds only

CONFIGS = {
    'ebgp': dict(local_as=65001, remote_as=65002),
    'ibgp': dict(local_as=65001, remote_as=65001),
}

# ---------------------------------------------------------------------------------------------
# credentials
# ---------------------------------------------------------------------------------------------
CRED_KINDS = ['none', 'wrong_user', 'wrong_pass', 'both_wrong', 'empty', 'empty_pass', 'upper_user',
              'pass_prefix', 'other_scheme_wrong', 'malformed', 'right', 'other_scheme_right']
# Flask-HTTPAuth 4.x HTTPBasicAuth.get_auth ignores the scheme word: "Bearer base64(user:password)" is read
# exactly like "Basic base64(user:password)".  A request presenting the configured pair under another scheme
# word therefore counts as a request WITH valid credentials (library behaviour, trusted).
VALID_CREDS = ('right', 'other_scheme_right')
CRED_REQUIRED = ['none', 'wrong_user', 'wrong_pass', 'right']      # the four of the property text


def cred_pair(kind, conf):
    """(user, password) sent with Basic, or None when no well-formed Basic credentials are sent"""
    u, p = conf
    return {
        'none': None, 'malformed': None, 'other_scheme_wrong': (u, p + 'x'), 'other_scheme_right': (u, p),
        'wrong_user': (u + 'x', p), 'wrong_pass': (u, p + 'x'), 'both_wrong': ('root', 'toor'),
        'empty': ('', ''), 'empty_pass': (u, ''), 'upper_user': (u.upper() + '_', p),
        'pass_prefix': (u, p[:-1]), 'right': (u, p),
    }[kind]


def cred_header(kind, conf):
    pair = cred_pair(kind, conf)
    if kind == 'none':
        return {}
    if kind.startswith('other_scheme'):
        return {'Authorization': 'Bearer ' + base64.b64encode(('%s:%s' % pair).encode()).decode()}
    if kind == 'malformed':
        return {'Authorization': 'Basic %%%not-base64%%%'}
    return {'Authorization': 'Basic ' + base64.b64encode(('%s:%s' % pair).encode()).decode()}


def coq_str(s):
    assert all(32 <= ord(c) < 127 for c in s), s
    return '"%s"' % s.replace('"', '""')


def coq_creds(kind, conf):
    pair = cred_pair(kind, conf)
    if pair is None:
        return 'None'
    return '(Some (%s, %s))' % (coq_str(pair[0]), coq_str(pair[1]))


# ---------------------------------------------------------------------------------------------
# payloads
# ---------------------------------------------------------------------------------------------
class Interner(object):
    def __init__(self):
        self.d = {}

    def tok(self, v):
        k = json.dumps(v, sort_keys=True)
        if k not in self.d:
            self.d[k] = len(self.d) + 1
        return self.d[k]


TOK = Interner()

# extended-community text -> yabgp's numeric form, written from the documentation of the REST API
# (doc/source/restapi.rst / msg_format.rst), for the examples used below
EXT_COM = {
    'route-target:65001:1': [[2, '65001:1']],
    'route-target:1.1.1.1:1': [[258, '1.1.1.1:1']],
    'route-origin:65001:7': [[3, '65001:7']],
    'route-origin:2.2.2.2:7': [[259, '2.2.2.2:7']],
    'dmzlink-bw:65001:1000': [[16388, '65001:1000']],
    'redirect-vrf:65001:9': [[32776, '65001:9']],
    'route-target:65001:1,65002:2': [[2, '65001:1'], [2, '65002:2']],
}


def requested_update(body):
    """the UPDATE the client asked for, in yabgp's internal notation (what JSON decoding gives, integer
    attribute keys, extended communities in numeric form); None when the request is not a well-formed
    request for an UPDATE (unknown extended community text)"""
    body = json.loads(json.dumps(body))
    attr = body.get('attr') or {}
    out = {}
    for k, v in attr.items():
        out[int(k)] = v
    if 16 in out:
        rec = []
        for t in out[16]:
            if t not in EXT_COM:
                return None
            rec += copy.deepcopy(EXT_COM[t])
        out[16] = rec
    return {'attr': out, 'nlri': body.get('nlri') or [], 'withdraw': body.get('withdraw') or []}


def needs_peer_cap(body):
    """does the extended-community text of the request make v1.py consult the peer's four_bytes_as
    capability (route-origin:<as>:<n>; route-target:<as>:<n> with as > 65535)?  The examples used here
    have AS numbers <= 65535, so the re-combined value itself never depends on the capability."""
    for t in ((body.get('attr') or {}).get('16') or []):
        key, _, value = t.partition(':')
        for v in value.split(','):
            first = v.strip().split(':')[0]
            if '.' in first:
                continue
            if key.strip().lower() == 'route-origin':
                return True
            if key.strip().lower() == 'route-target' and first.isdigit() and int(first) > 65535:
                return True
    return False


def coq_umsg(m):
    attrs = []
    for k, v in m['attr'].items():
        if isinstance(v, int) and not isinstance(v, bool) and v >= 0:
            attrs.append('(%d, AVNum %d)' % (k, v))
        else:
            attrs.append('(%d, AVTok %d)' % (k, TOK.tok(v)))
    return '(mkU [%s] [%s] [%s])' % ('; '.join(attrs), '; '.join('%d' % TOK.tok(x) for x in m['nlri']),
                                     '; '.join('%d' % TOK.tok(x) for x in m['withdraw']))


def with_local_pref(m):
    m2 = copy.deepcopy(m)
    m2['attr'][5] = 100
    return m2


def real_construct(m, asn4, addpath):
    from yabgp.message.update import Update
    try:
        b = Update().construct(copy.deepcopy(m), asn4, addpath)
    except Exception:
        return None
    return b if isinstance(b, bytes) else None


def coq_payload(p):
    k = p[0]
    if k == 'none':
        return 'PNone'
    if k in ('junk', 'update_rejected', 'bin_bad'):
        return 'PJunk'
    if k == 'action':
        return '(PAction %s)' % ('true' if p[1] in ('send', 'received') else 'false')
    if k == 'update':
        return '(%s %s)' % ('PUpdateCap' if needs_peer_cap(p[1]) else 'PUpdate', coq_umsg(requested_update(p[1])))
    if k == 'refresh':
        return '(PRefresh %d %d %d)' % (p[1], p[2], 0 if p[3] is None else p[3])
    if k == 'bin':
        return '(PBin %s)' % coq_bytes(p[1])
    if k == 'rib':
        return '(PRib %s)' % ('true' if (isinstance(p[1], list) and p[2] in (None, 'ipv4')) else 'false')
    raise ValueError(p)


def http_body(p):
    """(json body or None, query string dict)"""
    k = p[0]
    if k in ('none', 'action'):
        return None, {}
    if k == 'junk':
        return {'unrelated': 1}, {}
    if k in ('update', 'update_rejected'):
        return p[1], {}
    if k == 'refresh':
        b = {'afi': p[1], 'safi': p[2]}
        if p[3] is not None:
            b['res'] = p[3]
        return b, {}
    if k == 'bin':
        if len(p) > 2 and p[2]:      # human format: list of spaced hex lines
            h = p[1].hex()
            sp = ' '.join(h[i:i + 2] for i in range(0, len(h), 2))
            return {'binary_data': [sp[i:i + 24] for i in range(0, len(sp), 24)]}, {'format': 'human'}
        return {'binary_data': p[1].hex()}, {}
    if k == 'bin_bad':
        return {'binary_data': p[1]}, {}
    if k == 'rib':
        b = {} if p[1] is None else {'data': p[1]}
        return b, ({} if p[2] is None else {'afi_safi': p[2]})
    raise ValueError(p)


SEND_UPDATE = '/v1/peer/<peer_ip>/send/update'
SEND_BIN = '/v1/peer/<peer_ip>/send/bin_update'
SEND_RR = '/v1/peer/<peer_ip>/send/route-refresh'
JSON_TO_BIN = '/v1/peer/<peer_ip>/json_to_bin'
RIB_IN = '/v1/peer/<peer_ip>/adj-rib-in'
RIB_OUT = '/v1/peer/<peer_ip>/adj-rib-out'
VERSION = '/v1/peer/<peer_ip>/version/<action>'

BASE_ATTR = {'1': 0, '2': [[2, [65001, 65010]]], '3': '10.0.0.1'}
DEFAULT_UPDATE = {'attr': dict(BASE_ATTR), 'nlri': ['192.0.2.0/24']}
UPDATE_FRAME = explore.frame(2, explore.UPDATE_OK)

DEFAULT_PAYLOAD = {
    SEND_UPDATE: ('update', DEFAULT_UPDATE),
    JSON_TO_BIN: ('update', DEFAULT_UPDATE),
    SEND_BIN: ('bin', UPDATE_FRAME),
    SEND_RR: ('refresh', 1, 1, None),
    RIB_IN: ('rib', ['192.0.2.0/24'], None),
    RIB_OUT: ('rib', ['192.0.2.0/24'], None),
    VERSION: ('action', 'send'),
}


def default_payload(rule, methods):
    if rule in DEFAULT_PAYLOAD:
        return DEFAULT_PAYLOAD[rule]
    return ('junk',) if 'POST' in methods else ('none',)


def extra_payloads(rule):
    """further payloads for the allowed method of a rule (every state)"""
    if rule == VERSION:
        return [('action', 'received'), ('action', 'bogus')]
    if rule in (SEND_UPDATE, JSON_TO_BIN, SEND_BIN, SEND_RR, RIB_IN, RIB_OUT):
        ex = [('none',), ('junk',)]
        if rule in (RIB_IN, RIB_OUT):
            ex += [('rib', None, None), ('rib', ['10.0.0.0/8', '192.0.2.1'], 'ipv4'), ('rib', ['10.0.0.0/8'], 'ipv6')]
        return ex
    return []


def update_space(ctx):
    """JSON bodies for send/update and json_to_bin"""
    out = []

    def add(attr=None, nlri=None, withdraw=None):
        b = {}
        if attr is not None:
            b['attr'] = attr
        if nlri is not None:
            b['nlri'] = nlri
        if withdraw is not None:
            b['withdraw'] = withdraw
        out.append(b)

    def base(**kw):
        a = dict(BASE_ATTR)
        for k, v in kw.items():
            a[k.lstrip('a')] = v
        return a
    one = ['192.0.2.0/24']
    add(base(), one)
    # ORIGIN
    for o in (1, 2, 3, 255):
        add(base(a1=o), one)
    # AS_PATH: empty, set+sequence, 2/4-octet boundary values, segment length boundary
    for p in ([], [[2, [1]]], [[1, [1, 2]], [2, [3]]], [[2, [65535]]], [[2, [65536]]], [[2, [4294967295]]],
              [[2, [4294967296]]], [[2, list(range(1, 256))]], [[2, list(range(1, 257))]], [[3, [1]]], [[4, [1]]]):
        add(base(a2=p), one)
    # NEXT_HOP
    for nh in ('0.0.0.0', '255.255.255.255', '10.0.0.1', 'not-an-address'):
        add(base(a3=nh), one)
    # MED / LOCAL_PREF boundaries (LOCAL_PREF present: never replaced by the default)
    for v in (0, 1, 4294967295, 4294967296):
        add(base(a4=v), one)
        add(base(a5=v), one)
    add(base(a5=100), one)
    add(base(a5=200, a4=5), one)
    # ATOMIC_AGGREGATE, AGGREGATOR, COMMUNITY, ORIGINATOR_ID, CLUSTER_LIST
    add(base(a6=''), one)
    add(base(a7=[65001, '1.1.1.1']), one)
    add(base(a7=[4200000000, '1.1.1.1']), one)
    add(base(a8=['NO_EXPORT', '65001:1']), one)
    add(base(a8=['NO_ADVERTISE', 'NO_EXPORT_SUBCONFED', '0:0', '65535:65535']), one)
    add(base(a9='1.1.1.1', a10=['1.1.1.1', '2.2.2.2']), one)
    for t in sorted(EXT_COM):
        add(base(a16=[t]), one)
    add(base(a16=['route-target:65001:1', 'route-origin:2.2.2.2:7']), one)
    # NLRI: every prefix length, several prefixes, many prefixes
    for ln in range(0, 33):
        import netaddr
        net = netaddr.IPNetwork('203.0.113.77/%d' % ln).cidr
        add(base(), [str(net)])
    add(base(), ['10.0.0.0/8', '172.16.0.0/12', '192.168.0.0/16', '0.0.0.0/0', '255.255.255.255/32'])
    add(base(), ['10.%d.%d.0/24' % (i // 256, i % 256) for i in range(300)])
    add(base(), ['300.0.0.0/8'])
    # withdrawals
    add(None, None, one)
    add(None, None, ['10.0.0.0/8', '0.0.0.0/0', '192.0.2.1/32'])
    add({}, [], one)
    add(base(), one, ['198.51.100.0/24'])
    add(base(), None, ['198.51.100.0/24'])
    # refused shapes
    add(base(), None)
    add(None, one)
    add({}, one)
    add()
    add({'5': 7}, None)
    # MP_REACH / MP_UNREACH (dictionaries of tests/unit/message/attribute/test_mp*.py)
    mp = [
        {'14': {'afi_safi': [2, 1], 'nexthop': '2001:3232::1',
                'nlri': ['2001:3232::1/128', '2001:3232:1::/64', '2001:4837:1632::2/127']}},
        {'14': {'afi_safi': [2, 1], 'nexthop': '2001:db8::2', 'linklocal_nexthop': 'fe80::c002:bff:fe7e:0',
                'nlri': ['2001:db8:2:2::/64', '2001:db8:2:1::/64', '2001:db8:2::/64']}},
        {'14': {'afi_safi': [1, 128], 'nexthop': {'rd': '0:0', 'str': '2.2.2.2'},
                'nlri': [{'label': [25], 'rd': '100:100', 'prefix': '170.0.0.0/32'}]}},
        {'14': {'afi_safi': [25, 70], 'nexthop': '172.17.0.3',
                'nlri': [{'type': 2, 'value': {'eth_tag_id': 108, 'ip': '11.11.11.1', 'label': [0],
                                               'rd': '172.17.0.3:2', 'mac': '00-11-22-33-44-55',
                                               'esi': {'type': 0, 'value': 0}}}]}},
        {'14': {'afi_safi': [1, 73], 'nexthop': '192.168.5.5',
                'nlri': {'distinguisher': 0, 'color': 10, 'endpoint': '192.168.5.7'}}},
        {'14': {'afi_safi': [1, 133], 'nexthop': '', 'nlri': [{'1': '192.85.2.0/24', '2': '192.85.1.0/24'}]}},
        {'15': {'afi_safi': [2, 1],
                'withdraw': ['2001:3232::1/128', '2001:3232:1001::/64', '2001:4837:1632::2/127']}},
        {'15': {'afi_safi': [1, 128],
                'withdraw': [{'rd': '2:2', 'label': [524288], 'prefix': '192.168.201.0/24'}]}},
        {'15': {'afi_safi': [1, 73], 'withdraw': {'distinguisher': 0, 'color': 10, 'endpoint': '192.168.5.7'}}},
    ]
    for m in mp:
        a = {'1': 0, '2': []}
        a.update(m)
        add(a)
        add(dict(a, **{'5': 300}))
        add(m)
    if ctx.thorough:
        rng = ctx.rng
        pool = [('4', [0, 77, 4294967295]), ('5', [0, 100, 101]), ('6', ['']), ('8', [['65001:1'], ['NO_EXPORT']]),
                ('9', ['9.9.9.9']), ('10', [['1.1.1.1']]), ('16', [['route-target:65001:1']])]
        for _ in range(150):
            a = base(a1=rng.choice([0, 1, 2]), a2=rng.choice([[], [[2, [rng.randrange(1, 2 ** 32)]]]]))
            for k, vs in rng.sample(pool, rng.randrange(0, 5)):
                a[k] = rng.choice(vs)
            n = ['%d.%d.%d.0/%d' % (rng.randrange(1, 224), rng.randrange(256), rng.randrange(256), rng.randrange(8, 25))
                 for _ in range(rng.randrange(0, 4))]
            w = ['%d.%d.0.0/16' % (rng.randrange(1, 224), rng.randrange(256)) for _ in range(rng.randrange(0, 3))]
            add(a, n, w)
    return out


def bin_space(ctx):
    sp = [('bin', UPDATE_FRAME), ('bin', b'\x00'), ('bin', b'\xff' * 16 + b'\x00\x13\x04'),
          ('bin', bytes(range(256)) * 17), ('bin', b''), ('bin', UPDATE_FRAME, True),
          ('bin_bad', 'zz'), ('bin_bad', 'abc'), ('bin_bad', 12), ('bin_bad', ['00', '01'])]
    if ctx.thorough:
        for _ in range(40):
            sp.append(('bin', bytes(ctx.rng.randrange(256) for _ in range(ctx.rng.randrange(1, 80)))))
    return sp


def rr_space(ctx):
    return [('refresh', 1, 1, None), ('refresh', 1, 1, 0), ('refresh', 1, 1, 255), ('refresh', 1, 1, 256),
            ('refresh', 2, 1, 0), ('refresh', 1, 128, 0), ('refresh', 65536, 1, 0), ('refresh', 0, 0, 0),
            ('refresh', 1, 2, 7)]


# ---------------------------------------------------------------------------------------------
# running requests against the real application
# ---------------------------------------------------------------------------------------------
def live_rules():
    rows = []
    for r in app.url_map.iter_rules():
        rows.append({'rule': r.rule, 'endpoint': r.endpoint, 'methods': sorted(r.methods or ()),
                     'arguments': sorted(r.arguments)})
    rows.sort(key=lambda x: x['rule'])
    return rows


def build_url(rule, payload):
    url = rule.replace('<peer_ip>', PEER_IP).replace('<path:filename>', 'x.txt')
    url = url.replace('<action>', payload[1] if payload[0] == 'action' else 'send')
    while '<' in url:                      # a rule the harness has never seen: fill every variable
        i, j = url.index('<'), url.index('>')
        url = url[:i] + 'x' + url[j + 1:]
    return url


def outs_of(items, raw=False):
    """log entries -> structure mirroring sx_out; raw: the written bytes are rendered as WRaw (update and
    binary sends: the model does not look into them; they need not even be a BGP message)"""
    outs = []
    for item in items:
        if item[0] == 'connect':
            outs.append([0, item[1]])
        elif item[0] == 'write':
            outs.append([1, item[1], [2, Bytes(item[2])] if raw else session.parse_written(item[2])])
        elif item[0] == 'lose':
            outs.append([2, item[1]])
        elif item[0] == 'handler':
            outs.append([3, 100 + item[3]] if item[1] == 'route_refresh_received' else [3, session.HCALL[item[1]]])
        elif item[0] == 'exc':
            outs.append([4])
    return outs


def classify(resp, method):
    code = resp.status_code
    if code == 401:
        return R401, None
    if code == 405:
        return R405, None
    if method == 'HEAD' and code == 200:
        return RHEAD200, None       # no body: success and reported failure look the same
    body = None
    try:
        body = json.loads(resp.data.decode('utf-8', 'replace')) if resp.data else None
    except ValueError:
        body = None
    if code == 200:
        if resp.headers.get('Allow') and not resp.data and body is None:
            return ROPTIONS, None
        if isinstance(body, dict) and body.get('status') is False:
            return (RNOTESTAB if body.get('code') == GATE_TEXT else RFAIL), body
        return ROK, body
    return RERR, body


class Runner(object):
    """one (configuration, credentials configuration, state) with a fresh real peering whenever needed"""

    def __init__(self, cfg_name, conf, state_name):
        self.cfg_name, self.conf, self.state_name = cfg_name, conf, state_name
        self.kw = dict(CONFIGS[cfg_name])
        self.prefix = state_prefixes(self.kw['remote_as'])[state_name]
        self.d = None
        self.builds = 0
        self.fresh()

    def fresh(self):
        env.init_conf()
        env.CONF.set_override('username', self.conf[0], group='rest')
        env.CONF.set_override('password', self.conf[1], group='rest')
        env.CONF.set_override('rib', False, group='bgp')
        self.d, self.cevs, res = session.run_trace(self.kw, self.prefix)
        assert all(r[0] for r in res), ('state prefix not enabled', self.state_name)
        assert self.d.exc == 0
        assert self.d.peering.fsm.state == EXPECTED_FSM[self.state_name], (self.state_name, self.d.peering.fsm.state)
        self.client = app.test_client()
        self.base = self.d.state()
        self.builds += 1

    def request(self, req):
        d = self.d
        session.Driver.current = d
        before = d.state()
        if before != self.base:          # keep every request on the same world
            self.fresh()
            d = self.d
            before = d.state()
        n0 = len(d.sim.log)
        p = d.peering.fsm.protocol
        cur_cid = d.cid_of(p)
        cur_connected = bool(p is not None and d.sim.connectors[cur_cid].state == 'connected')
        flags = (bool(p.fourbytesas), bool(p.add_path_ipv4_send)) if p is not None else (False, False)
        remote_caps = copy.deepcopy(env.CONF.bgp.running_config['capability']['remote'])
        body, query = http_body(req['payload'])
        kw = {}
        if body is not None:      # serialised here: Flask's test client would sort the keys of json=
            kw['data'] = json.dumps(body)
            kw['content_type'] = 'application/json'
        resp = self.client.open(build_url(req['rule'], req['payload']), method=req['method'],
                                headers=cred_header(req['cred'], self.conf), query_string=query, **kw)
        cls, js = classify(resp, req['method'])
        delta = list(d.sim.log[n0:])
        after = d.state()
        obs = {'status': resp.status_code, 'class': cls, 'json': js, 'delta': delta, 'changed': after != before,
               'fsm_before': before[0], 'fsm_after': after[0], 'cur_cid': cur_cid, 'cur_connected': cur_connected,
               'flags': flags, 'remote_caps': remote_caps, 'after': after}
        if delta or obs['changed'] or cls not in (R401, R405, ROPTIONS, RNOTESTAB):
            self.fresh()
        return obs


# ---------------------------------------------------------------------------------------------
# property oracle (does not use the model)
# ---------------------------------------------------------------------------------------------
def allowed_method(rule_row, method):
    return method in rule_row['methods'] or (method == 'HEAD' and 'GET' in rule_row['methods'])


def expected_wire(req, obs, ibgp):
    """acceptable byte strings for a successful send, from the property text"""
    p = req['payload']
    if req['rule'] == SEND_BIN:
        return [p[1]] if p[0] == 'bin' else []
    if req['rule'] == SEND_RR:
        if p[0] != 'refresh':
            return []
        res = 0 if p[3] is None else p[3]
        try:
            body = struct.pack('!HBB', p[1], res, p[2])
        except struct.error:
            return []
        return [b'\xff' * 16 + struct.pack('!HB', 23, ty) + body for ty in (5, 128)
                if ('route_refresh' if ty == 5 else 'cisco_route_refresh') in obs['remote_caps']]
    if req['rule'] == SEND_UPDATE:
        if p[0] != 'update':
            return []
        m = requested_update(p[1])
        if m is None:
            return []
        acc = [real_construct(m, *obs['flags'])]
        if ibgp and 5 not in m['attr']:
            acc.append(real_construct(with_local_pref(m), *obs['flags']))
        return [b for b in acc if b is not None]
    return None        # not a sender the harness knows: judged by the generic rules only


def oracle(req, obs, rule_row, ibgp):
    v = []
    rule = req['rule']
    under_peer = rule.startswith('/v1/peer/')
    allowed = allowed_method(rule_row, req['method'])
    effect = bool(obs['delta']) or obs['changed']
    writes = [x for x in obs['delta'] if x[0] == 'write']
    if under_peer and req['cred'] not in VALID_CREDS:
        if req['method'] == 'OPTIONS' and 'OPTIONS' in rule_row['methods']:
            pass
        elif allowed and obs['status'] != 401:
            v.append('request without valid credentials (%s) answered %d instead of 401' % (req['cred'], obs['status']))
        elif not allowed and 200 <= obs['status'] < 300:
            v.append('request without valid credentials (%s) answered %d' % (req['cred'], obs['status']))
        if effect:
            v.append('request without valid credentials (%s) had an effect: %r' % (req['cred'], obs['delta'][:3]))
    # the only message an endpoint may cause outside Established: the Cease NOTIFICATION of an authorised manual
    # stop in OpenSent / OpenConfirm (RFC 4271 8.2.2, event 2; the code sends it since fix 8b5b420)
    cease_of_stop = (rule.endswith('/manual-stop') and req['cred'] in VALID_CREDS and allowed and
                     obs['fsm_before'] in (4, 5) and
                     all(len(x[2]) >= 21 and x[2][18] == 3 and x[2][19] == 6 for x in writes))
    if writes and obs['fsm_before'] != 6 and not cease_of_stop:
        v.append('BGP message written while the session is not Established (state %d)' % obs['fsm_before'])
    sender = under_peer and '/send/' in rule
    if sender and req['cred'] in VALID_CREDS and allowed and req['method'] != 'OPTIONS':
        if obs['fsm_before'] != 6:
            if obs['class'] == ROK:
                v.append('send endpoint reports success while the session is not Established (state %d)'
                         % obs['fsm_before'])
            if effect:
                v.append('send endpoint had an effect while the session is not Established (state %d)'
                         % obs['fsm_before'])
        elif obs['class'] == ROK:
            exp = expected_wire(req, obs, ibgp)
            d = obs['delta']
            good = (len(d) == 1 and d[0][0] == 'write' and d[0][1] == obs['cur_cid'] and obs['cur_connected']
                    and exp is not None and d[0][2] in exp)
            if not good:
                v.append('send reported successful but the wire shows %s; acceptable: %s on connection %r'
                         % ([(x[0], x[1], x[2].hex() if x[0] == 'write' else None) for x in d][:3],
                            [b.hex() for b in (exp or [])][:2], obs['cur_cid']))
            if obs['fsm_after'] != 6:
                v.append('successful send left the Established state')
        elif writes:
            v.append('send reported failure (%s) but wrote %d message(s)' % (CLASS_NAME[obs['class']], len(writes)))
    return v


# ---------------------------------------------------------------------------------------------
# the sweep
# ---------------------------------------------------------------------------------------------
def requests_for_state(ctx, rules, state_name, cfg_name, full_creds, send_spaces):
    reqs = []
    creds = CRED_KINDS if full_creds else CRED_REQUIRED
    for row in rules:
        rule = row['rule']
        dp = default_payload(rule, row['methods'])
        for m in METHODS:
            for c in creds:
                reqs.append({'rule': rule, 'method': m, 'cred': c, 'payload': dp})
            if allowed_method(row, m) and m != 'OPTIONS':
                for p in extra_payloads(rule):
                    for c in creds:
                        reqs.append({'rule': rule, 'method': m, 'cred': c, 'payload': p})
    if send_spaces:
        us, bs, rs = send_spaces
        sample_creds = ['right', 'none'] if state_name.startswith('established') else ['right']
        gate_only = not state_name.startswith('established')
        for c in sample_creds:
            sub = lambda l, k: l if (c == 'right' and not gate_only) else l[:k]     # noqa: E731
            for b in sub(us, 6):
                kind = 'update' if requested_update(b) is not None else 'update_rejected'
                reqs.append({'rule': SEND_UPDATE, 'method': 'POST', 'cred': c, 'payload': (kind, b)})
                if c == 'right' and not gate_only:
                    reqs.append({'rule': JSON_TO_BIN, 'method': 'POST', 'cred': c, 'payload': (kind, b)})
            for p in sub(bs, 3):
                reqs.append({'rule': SEND_BIN, 'method': 'POST', 'cred': c, 'payload': p})
            for p in sub(rs, 3):
                reqs.append({'rule': SEND_RR, 'method': 'POST', 'cred': c, 'payload': p})
    return reqs


def coq_request(req, conf):
    return '(mkReq (route_by_rule %s) M%s %s %s)' % (coq_str(req['rule']), req['method'],
                                                      coq_creds(req['cred'], conf), coq_payload(req['payload']))


def construct_table(reqs_obs):
    """entries for every UPDATE request: the requested message and its +LOCAL_PREF variant"""
    seen, rows = set(), []
    for req, obs in reqs_obs:
        if req['payload'][0] != 'update':
            continue
        m = requested_update(req['payload'][1])
        variants = [m]
        if 5 not in m['attr']:
            variants.append(with_local_pref(m))
        for mm in variants:
            key = (obs['flags'], coq_umsg(mm))
            if key in seen:
                continue
            seen.add(key)
            b = real_construct(mm, *obs['flags'])
            rows.append('(%s, %s, %s, %s)' % ('true' if obs['flags'][0] else 'false',
                                              'true' if obs['flags'][1] else 'false', key[1],
                                              'None' if b is None else '(Some %s)' % coq_bytes(b)))
    return '[%s]' % ';\n  '.join(rows)


def shard_text(runner, conf, reqs_obs):
    d = runner.d
    head = ('Definition D := %s.\n'
            'Definition C := tbl_construct %s.\n'
            'Definition conf : string * string := (%s, %s).\n'
            'Definition w0 : world := Eval vm_compute in (run D (world0 %s [%s]) [%s]).\n'
            % (d.coq_tables(), construct_table(reqs_obs), coq_str(conf[0]), coq_str(conf[1]), d.coq_cfg(),
               '; '.join(session.coq_cap(c) for c in session.initial_caps(runner.kw)), '; '.join(runner.cevs)))
    head += 'Definition s0 : sx := %s.\n' % coq_sx(runner.base)
    cases = []
    for req, obs in reqs_obs:
        impl = 'SL [SN %d; %s; %s]' % (obs['class'],
                                       coq_sx(outs_of(obs['delta'], req['rule'] in (SEND_UPDATE, SEND_BIN))),
                                       coq_sx(obs['after']) if obs['changed'] else 's0')
        cases.append('(rest_case_sx conf D C w0 %s, %s)' % (coq_request(req, conf), impl))
    return head + 'Definition cases : list (sx * sx) := [\n%s\n].\nEval vm_compute in (mismatches cases).\n' \
        % ';\n'.join(cases)


def regen_inventory():
    out = os.path.join(common.COQ, 'gen', 'RestInventory.v')
    try:
        old = open(out).read()
    except IOError:
        old = None
    rc, text = common.sh([common.PY, '-B', os.path.join(common.HERE, 'inventory_rest.py'), out], timeout=300)
    new = None
    if rc == 0:
        new = open(out).read()
    return rc, text.strip()[-1500:], (old != new)


def req_json(req, cfg_name, conf, state_name):
    p = req['payload']
    pj = [x.hex() if isinstance(x, (bytes, bytearray)) else x for x in p]
    return {'config': cfg_name, 'rest_credentials': list(conf), 'state': state_name, 'rule': req['rule'],
            'method': req['method'], 'cred': req['cred'], 'payload': pj,
            'payload_bytes_fields': [i for i, x in enumerate(p) if isinstance(x, (bytes, bytearray))]}


def run(ctx):
    mism, viol = [], []
    t_start = time.time()
    # 0. the inventory generator (also run by check.py when it is listed in common.GENERATORS)
    rc, text, changed = regen_inventory()
    if rc != 0:
        mism.append({'what': 'harness/inventory_rest.py aborted (route table cannot be translated): %s' % text})
    elif changed and ctx.coq_ok:
        brc, bout = common.build(COQ_TARGETS)
        if brc != 0:
            ctx.coq_ok = False
            mism.append({'what': 'proof obligations no longer check after regenerating gen/RestInventory.v: %s'
                         % common.first_error(bout)})
    rules = live_rules()
    spaces = (update_space(ctx), bin_space(ctx), rr_space(ctx))
    plans = []      # (cfg, conf, state, full creds?, send spaces?)
    for cfg_name in ('ebgp', 'ibgp'):
        for st in EXPECTED_FSM:
            # quick tier: all credential variants on eBGP; on iBGP (which differs only in send/update) and in
            # the two extra Established states the four kinds of the property text.  thorough: everything.
            full = ctx.thorough or (st not in REDUCED_IN_QUICK and cfg_name == 'ebgp')
            plans.append((cfg_name, ('admin', 'admin'), st, full, spaces))
    # a second credential pair (not the defaults; ':' in the password), reduced state set
    for st in ('idle_fresh', 'established', 'idle_manual_stop'):
        plans.append(('ebgp', ('operator', 's3cr3t:pw'), st, True, None))
    stats = {'by_class': {}, 'by_state': {}, 'by_cred': {}, 'requests': 0, 'peering_builds': 0,
             'successful_sends': 0, 'successful_sends_with_default_local_pref': 0, 'gate_refusals': 0,
             'unauthenticated_rejected': 0, 'established_tracked_connected': 0, 'manual_route_transitions': 0}
    shards, shard_index = [], []
    samples = []
    distinct = set()
    rows = {r['rule']: r for r in rules}
    for cfg_name, conf, st, full, sp in plans:
        runner = Runner(cfg_name, conf, st)
        ibgp = CONFIGS[cfg_name]['local_as'] == CONFIGS[cfg_name]['remote_as']
        reqs = requests_for_state(ctx, rules, st, cfg_name, full, sp)
        done = []
        for req in reqs:
            obs = runner.request(req)
            done.append((req, obs))
            stats['requests'] += 1
            cn = CLASS_NAME[obs['class']]
            stats['by_class'][cn] = stats['by_class'].get(cn, 0) + 1
            stats['by_state'][st] = stats['by_state'].get(st, 0) + 1
            stats['by_cred'][req['cred']] = stats['by_cred'].get(req['cred'], 0) + 1
            distinct.add((cfg_name, conf, st, req['rule'], req['method'], req['cred'], repr(req['payload'])))
            if obs['class'] == R401 and not obs['delta'] and not obs['changed']:
                stats['unauthenticated_rejected'] += 1
            if obs['class'] == RNOTESTAB:
                stats['gate_refusals'] += 1
            if obs['fsm_before'] == 6 and obs['cur_connected']:
                stats['established_tracked_connected'] += 1
            if obs['fsm_before'] == 6 and not obs['cur_connected']:
                viol.append({'what': 'Established but the FSM tracks no connected transport (assumption of '
                                     'C16_send_exact)', 'input': req_json(req, cfg_name, conf, st), 'known': None})
            if '/manual-' in req['rule'] and obs['changed']:
                stats['manual_route_transitions'] += 1
            if obs['class'] == ROK and '/send/' in req['rule']:
                stats['successful_sends'] += 1
                if req['rule'] == SEND_UPDATE and ibgp and obs['delta'] and obs['delta'][0][0] == 'write':
                    m = requested_update(req['payload'][1])
                    if 5 not in m['attr'] and obs['delta'][0][2] == real_construct(with_local_pref(m), *obs['flags']) \
                            and obs['delta'][0][2] != real_construct(m, *obs['flags']):
                        stats['successful_sends_with_default_local_pref'] += 1
            for what in oracle(req, obs, rows[req['rule']], ibgp):
                viol.append({'what': '%s  [%s %s, state %s, %s]' % (what, req['method'], req['rule'], st, cfg_name),
                             'input': req_json(req, cfg_name, conf, st), 'known': None})
            want = None
            if req['rule'].startswith('/v1/peer/') and req['method'] in ('GET', 'POST'):
                if obs['class'] == R401 and req['cred'] == 'wrong_pass':
                    want = 'unauthenticated'
                elif obs['class'] == RNOTESTAB and req['rule'] == SEND_UPDATE:
                    want = 'gate'
                elif obs['class'] == ROK and req['rule'] == SEND_UPDATE and ibgp:
                    want = 'send_ibgp'
                elif obs['class'] == ROK and '/manual-stop' in req['rule'] and obs['fsm_before'] == 6:
                    want = 'manual_stop'
            if want and not any(x['kind'] == want for x in samples):
                samples.append(dict(req_json(req, cfg_name, conf, st), kind=want, status=obs['status'],
                                    wire=[x[2].hex() for x in obs['delta'] if x[0] == 'write'],
                                    fsm_before=obs['fsm_before'], fsm_after=obs['fsm_after']))
        stats['peering_builds'] += runner.builds
        if ctx.coq_ok:
            per = 250
            if not ctx.thorough:
                # quick tier: the model is evaluated on every dispatched request, but of the requests Flask
                # answers itself (405 / automatic OPTIONS) only those with the four credential kinds of the
                # property text (the oracle above has judged all of them)
                done = [(rq, ob) for rq, ob in done
                        if ob['class'] not in (R405, ROPTIONS) or rq['cred'] in CRED_REQUIRED]
            stats['coq_cases'] = stats.get('coq_cases', 0) + len(done)
            for i in range(0, len(done), per):
                shards.append(shard_text(runner, conf, done[i:i + per]))
                shard_index.append((cfg_name, conf, st, done[i:i + per]))
    t_sweep = time.time()
    # session-model tie of the send events themselves (Driver 'sendupd' / 'sendbin' through protocol.py)
    traces = []
    if ctx.coq_ok:
        for cfg_name in ('ebgp', 'ibgp'):
            kw = dict(CONFIGS[cfg_name])
            est = state_prefixes(kw['remote_as'])['established']
            for b in spaces[0][:: (1 if ctx.thorough else 4)]:
                m = requested_update(b)
                if m is None:
                    continue
                d, cevs, res = session.run_trace(kw, est + [('sendupd', m)])
                traces.append(session.coq_case(kw, cevs, d, res))
            d, cevs, res = session.run_trace(kw, est + [('sendbin', UPDATE_FRAME)])
            traces.append(session.coq_case(kw, cevs, d, res))
        for i in range(0, len(traces), 40):
            shards.append('Definition cases := [\n%s\n].\nEval vm_compute in (trace_diffs_from 0 cases).\n'
                          % ';\n'.join(traces[i:i + 40]))
            shard_index.append(('trace', None, None, traces[i:i + 40]))
        results = common.coq_eval_shards(ctx.prop, shards, imports=IMPORTS)
        for (cfg_name, conf, st, chunk), (rc, out) in zip(shard_index, results):
            if cfg_name == 'trace':
                pairs = common.parse_pairs(out)
                if rc != 0 or pairs is None:
                    mism.append({'what': 'send-event trace file does not evaluate: %s' % common.first_error(out)})
                for (ti, si) in pairs or []:
                    mism.append({'what': 'session model and implementation differ on an API send event '
                                         '(trace %d step %d)' % (ti, si)})
                continue
            idx = common.parse_nats(out)
            if rc != 0 or idx is None:
                mism.append({'what': 'case file for %s/%s does not evaluate: %s'
                             % (cfg_name, st, common.first_error(out))})
                continue
            for i in idx:
                req, obs = chunk[i]
                mism.append({'what': 'model (YRest.rest_step) and application differ: %s %s cred=%s state=%s %s '
                                     'payload=%s -> application: %s %r'
                                     % (req['method'], req['rule'], req['cred'], st, cfg_name, req['payload'][0],
                                        CLASS_NAME[obs['class']], [x[:2] for x in obs['delta']][:3]),
                             'input': req_json(req, cfg_name, conf, st)})
    extra = dict(stats)
    extra['seconds'] = {'sweep_and_oracle': round(t_sweep - t_start, 1), 'coq_evaluation': round(time.time() - t_sweep, 1)}
    extra.update({
        'routes_in_url_map': len(rules), 'routes_under_v1_peer': len([r for r in rules if r['rule'].startswith('/v1/peer/')]),
        'methods': METHODS, 'credential_variants': CRED_KINDS,
        'session_state_names': sorted(EXPECTED_FSM), 'fsm_states_covered': sorted(set(EXPECTED_FSM.values())),
        'configurations': sorted(CONFIGS), 'update_bodies': len(spaces[0]), 'binary_bodies': len(spaces[1]),
        'route_refresh_bodies': len(spaces[2]), 'coq_case_files': len(shards), 'send_event_traces': len(traces),
    })
    return {'evaluations': stats['requests'] + len(traces), 'distinct': len(distinct),
            'rule': 'exhaustive product url_map rule x method x credential variant x session state x {eBGP,iBGP} '
                    'through the Flask test client against the real peering; plus the send message spaces in '
                    'Established; non-trivial = a request actually dispatched by Flask (all are); distinct by '
                    '(configuration, state, rule, method, credentials, payload)',
            'samples': samples, 'mismatches': mism, 'violations': viol, 'extra': extra}


def replay(ctx, obj):
    v = obj.get('violation', obj)
    inp = v.get('input', v)
    if not isinstance(inp, dict) or 'rule' not in inp:
        print('nothing to replay in', json.dumps(obj)[:400])
        return 0
    p = list(inp['payload'])
    for i in inp.get('payload_bytes_fields', []):
        p[i] = bytes.fromhex(p[i])
    req = {'rule': inp['rule'], 'method': inp['method'], 'cred': inp['cred'], 'payload': tuple(p)}
    conf = tuple(inp['rest_credentials'])
    runner = Runner(inp['config'], conf, inp['state'])
    obs = runner.request(req)
    rows = {r['rule']: r for r in live_rules()}
    if req['rule'] not in rows:
        print('rule %s no longer in the url map' % req['rule'])
        return 0
    ibgp = CONFIGS[inp['config']]['local_as'] == CONFIGS[inp['config']]['remote_as']
    found = oracle(req, obs, rows[req['rule']], ibgp)
    print('request: %s %s cred=%s payload=%r state=%s config=%s' % (req['method'], req['rule'], req['cred'],
                                                                    inp['payload'], inp['state'], inp['config']))
    print('answer : HTTP %d class=%s body=%s' % (obs['status'], CLASS_NAME[obs['class']], json.dumps(obs['json'])[:200]))
    print('effects: %r  state changed: %s' % ([(x[0], x[1]) + ((x[2].hex(),) if x[0] == 'write' else ())
                                               for x in obs['delta']], obs['changed']))
    for f in found:
        print('VIOLATION property=C16 ' + f)
    return 1 if found else 0
