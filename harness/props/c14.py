"""C14 — OPEN / NOTIFICATION / KEEPALIVE / ROUTE-REFRESH codecs.
Worked example of a property module (see CONTRIBUTING.md)."""
import struct

import env  # noqa: F401  (stubs + /repo on sys.path)
import common
from session import Bytes, coq_sx, coq_bytes

COQ_TARGETS = ['props/C14.vo']
TRUSTED = ['Python struct module; canonicalisation of exceptions to {value, BGP error(code,sub), other exception}']
ASSUMPTIONS = ['model/YMsg.v, YOpen.v are hand-written and tied to yabgp/message/{notification,keepalive,'
               'route_refresh,open}.py by the correspondence run of this check']
IMPORTS = 'From YV Require Import lib.Base gen.Consts model.YMsg.\n'


def canon(fn, render):
    """run an implementation function, canonicalise like YMsg.sx_res"""
    from yabgp.common import exception as excep
    try:
        v = fn()
    except excep.NotificationSent as e:
        return [1, e.error, e.sub_error]
    except Exception:
        return [2]
    return [0, render(v)]


def gen_small(ctx):
    """(coq model expression, implementation thunk, renderer, description)"""
    from yabgp.message.notification import Notification
    from yabgp.message.keepalive import KeepAlive
    from yabgp.message.route_refresh import RouteRefresh
    rng = ctx.rng
    cases = []
    datas = [b'', b'\x00', b'\xff' * 3, bytes(range(64))] + \
            [bytes(rng.randrange(256) for _ in range(rng.choice([1, 2, 5, 64, 300]))) for _ in range(4)]
    codes = list(range(0, 8)) + [255, 256, 300]
    subs = list(range(0, 12)) + [255, 256]
    pairs = [(e, s) for e in codes for s in subs]
    if not ctx.thorough:
        pairs = rng.sample(pairs, 60) + [(6, 2), (2, 6), (255, 255), (256, 0)]
    for e, s in pairs:
        for d in (datas if ctx.thorough else rng.sample(datas, 2)):
            cases.append(('sx_res SB (notification_construct %d %d %s)' % (e, s, coq_bytes(d)),
                          (lambda e=e, s=s, d=d: Notification().construct(e, s, d)), Bytes,
                          ('notification_construct', e, s, d.hex())))
    bodies = [b'', b'\x06', b'\x06\x02', b'\x02\x01\x00\x04', bytes(range(40))] + \
             [bytes(rng.randrange(256) for _ in range(rng.randrange(0, 70))) for _ in range(30)]
    for b in bodies:
        cases.append(('sx_res sx_notif (notification_parse %s)' % coq_bytes(b),
                      (lambda b=b: Notification().parse(b)),
                      (lambda v: [v[0], v[1], Bytes(v[2])]), ('notification_parse', b.hex())))
        cases.append(('sx_res (fun _ => SL []) (keepalive_parse %s)' % coq_bytes(b),
                      (lambda b=b: KeepAlive().parse(b)), (lambda v: []), ('keepalive_parse', b.hex())))
        cases.append(('sx_res sx_rr (rr_parse %s)' % coq_bytes(b),
                      (lambda b=b: RouteRefresh().parse(b)), (lambda v: list(v)), ('rr_parse', b.hex())))
    cases.append(('sx_res SB (Ok keepalive_construct)', (lambda: KeepAlive().construct()), Bytes,
                  ('keepalive_construct',)))
    afis = [0, 1, 2, 25, 16388, 65535, 65536]
    safis = [0, 1, 2, 4, 65, 70, 71, 73, 128, 133, 134, 255, 256]
    for ty in (5, 128):
        for afi in afis:
            for safi in safis:
                for r in ((0, 1, 255) if ctx.thorough else (0,)):
                    cases.append(('sx_res SB (rr_construct %d %d %d %d)' % (ty, afi, r, safi),
                                  (lambda ty=ty, afi=afi, r=r, safi=safi:
                                   RouteRefresh(afi, safi, r).construct(ty)), Bytes,
                                  ('rr_construct', ty, afi, r, safi)))
    return cases


def oracle_small(ctx):
    """the property itself on the implementation: construct then decode gives the same values"""
    from yabgp.message.notification import Notification
    from yabgp.message.route_refresh import RouteRefresh
    from yabgp.message.keepalive import KeepAlive
    viol = []
    n = 0
    rng = ctx.rng
    for e in range(256) if ctx.thorough else list(range(8)) + [rng.randrange(256) for _ in range(8)] + [255]:
        for s in range(256) if ctx.thorough else list(range(12)) + [255]:
            d = bytes(rng.randrange(256) for _ in range(rng.choice([0, 0, 1, 6, 64])))
            n += 1
            m = Notification().construct(e, s, d)
            hdr_ok = m[:16] == b'\xff' * 16 and struct.unpack('!HB', m[16:19]) == (len(m), 3)
            if not hdr_ok or Notification().parse(m[19:]) != (e, s, d):
                viol.append({'what': 'NOTIFICATION round trip', 'input': [e, s, d.hex()], 'known': None})
    for ty in (5, 128):
        for afi in [0, 1, 2, 25, 16388, 65535] + [rng.randrange(65536) for _ in range(20)]:
            for safi in range(256) if ctx.thorough else [0, 1, 2, 4, 128, 133, 255]:
                n += 1
                m = RouteRefresh(afi, safi, 0).construct(ty)
                hdr_ok = m[:16] == b'\xff' * 16 and struct.unpack('!HB', m[16:19]) == (len(m), ty)
                if not hdr_ok or RouteRefresh().parse(m[19:]) != (afi, 0, safi):
                    viol.append({'what': 'ROUTE-REFRESH round trip', 'input': [ty, afi, safi], 'known': None})
    m = KeepAlive().construct()
    n += 1
    if m != b'\xff' * 16 + b'\x00\x13\x04' or KeepAlive().parse(m[19:]) is not None:
        viol.append({'what': 'KEEPALIVE round trip', 'input': m.hex(), 'known': None})
    return n, viol


def correspond(ctx, cases, imports, per_shard=250):
    """evaluate model expressions in Coq against the implementation's canonical values"""
    impl = [canon(fn, render) for (_, fn, render, _) in cases]
    if not ctx.coq_ok:
        return impl, []
    shards = []
    for i in range(0, len(cases), per_shard):
        body = ';\n'.join('(%s, %s)' % (cases[j][0], coq_sx(impl[j]))
                          for j in range(i, min(i + per_shard, len(cases))))
        shards.append('Definition cases : list (sx * sx) := [\n%s\n].\nEval vm_compute in (mismatches cases).\n' % body)
    mism = []
    for k, (rc, out) in enumerate(common.coq_eval_shards(ctx.prop, shards, imports=imports)):
        idx = common.parse_nats(out)
        if rc != 0 or idx is None:
            mism.append({'what': 'case file %d does not evaluate: %s' % (k, common.first_error(out))})
            continue
        for i in idx:
            j = k * per_shard + i
            mism.append({'what': 'model and implementation differ on %r' % (cases[j][3],),
                         'input': cases[j][3], 'impl': impl[j], 'model_expr': cases[j][0]})
    return impl, mism


def run(ctx):
    cases = gen_small(ctx)
    mods = []
    try:
        import props.c14_open as c14_open      # OPEN part (added separately)
        mods.append(c14_open)
    except ImportError:
        pass
    impl, mism = correspond(ctx, cases, IMPORTS)
    n_or, viol = oracle_small(ctx)
    extra = {'correspondence_cases': len(cases), 'oracle_cases': n_or,
             'kinds': sorted({c[3][0] for c in cases})}
    samples = [list(c[3]) for c in cases[:3]] + [list(cases[-1][3])]
    for m in mods:
        r = m.run(ctx)
        mism += r['mismatches']
        viol += r['violations']
        extra.update(r.get('extra', {}))
        samples += r.get('samples', [])[:3]
        n_or += r.get('evaluations', 0)
    distinct = len({repr(c[3]) for c in cases if impl[cases.index(c)][0] == 0}) if len(cases) < 3000 else len(cases)
    return {'evaluations': len(cases) + n_or, 'distinct': distinct,
            'rule': 'boundary + seeded random field values for every constructor/parser; a case is non-trivial '
                    'when the implementation returns a value (not an exception); distinct by input',
            'samples': samples, 'mismatches': mism, 'violations': viol, 'extra': extra}


def replay(ctx, obj):
    """re-run a stored violation; OPEN violations carry the body: decode it again and show both sides"""
    print(obj)
    v = obj.get('violation', obj) if isinstance(obj, dict) else {}
    inp = v.get('input') if isinstance(v, dict) else None
    if isinstance(inp, dict) and 'body' in inp:
        import props.c14_open as c14_open
        got = repr(c14_open.impl_parse(bytes.fromhex(inp['body']), named=True))[:600]
        print('body   %s\ndecode %s\nwant   %s' % (inp['body'], got, inp.get('want')))
        return 0 if got == inp.get('want') else 1
    return 0
