"""C01 — the session FSM follows the RFC 4271 profile for every reachable (state, event) pair."""
import env  # noqa: F401
import common
import session
from props import session_common as sc

COQ_TARGETS = ['props/C01.vo', 'model/YSessionSx.vo']
TRUSTED = sc.TRUSTED + ['spec/RfcFsm.v: the RFC 4271 section 8 table profiled for an active-only speaker (hand-written '
                        'from the RFC; the oracle evaluates THIS table inside Coq on the implementation\'s reactions)']
ASSUMPTIONS = sc.ASSUMPTIONS + ['single-connection regime (see C12 for overlapping connections)']
MSGS = ['open_ok', 'open_hold0', 'open_hold1', 'open_hold2', 'open_badver', 'open_wrongas', 'keepalive',
        'update_ok', 'update_bad', 'notif_version', 'notif_cease', 'route_refresh', 'bad_marker', 'bad_len_zero',
        'unknown_type']
MSG_EVENT = {
    'open_ok': 'EvOpenOk', 'open_hold0': 'EvOpenOk', 'open_hold1': '(EvOpenErr 6)', 'open_hold2': '(EvOpenErr 6)',
    'open_badver': '(EvOpenErr 1)', 'open_wrongas': '(EvOpenErr 2)', 'keepalive': 'EvKeepaliveMsg',
    'update_ok': 'EvUpdateMsg', 'update_bad': 'EvUpdateMsg', 'notif_version': 'EvNotifVersion',
    'notif_cease': 'EvNotifOther', 'route_refresh': 'EvRouteRefresh', 'bad_marker': '(EvHeaderErr 1)',
    'bad_len_zero': '(EvHeaderErr 2)', 'unknown_type': '(EvHeaderErr 3)',
    'notif_hdr': 'EvNotifOther', 'notif_upd': 'EvNotifOther', 'notif_hold': 'EvNotifOther', 'notif_fsm': 'EvNotifOther',
    'notif_cease_data': 'EvNotifOther', 'notif_unassigned': 'EvNotifOther', 'notif_open_other': 'EvNotifOther',
    'update_eor': 'EvUpdateMsg', 'update_withdraw': 'EvUpdateMsg',
    'update_flow4': 'EvUpdateMsg', 'update_flow4_wd': 'EvUpdateMsg', 'update_vpnv4': 'EvUpdateMsg', 'update_v6': 'EvUpdateMsg',
    # every framing error of RFC 4271 6.1: message length below the type's minimum or above 4096 (reported as soon
    # as the header is there), unknown type, KEEPALIVE with a body
    'open_short': '(EvHeaderErr 2)', 'bad_len_small': '(EvHeaderErr 2)', 'bad_len_big': '(EvHeaderErr 2)',
    'keepalive_body': '(EvHeaderErr 2)', 'unknown_type0': '(EvHeaderErr 3)',
}
# message variants delivered in every session state in addition to the exploration alphabet
DIRECTED = ['notif_hdr', 'notif_upd', 'notif_hold', 'notif_fsm', 'notif_cease_data', 'notif_unassigned', 'notif_open_other',
            'update_eor', 'update_withdraw', 'update_flow4', 'update_flow4_wd', 'update_vpnv4', 'update_v6',
            'open_short', 'bad_len_small', 'bad_len_big', 'keepalive_body', 'unknown_type0']
TIMER_EVENT = {'TConnectRetry': 'EvConnectRetryExpires', 'THold': 'EvHoldExpires',
               'TKeepAlive': 'EvKeepaliveExpires', 'TIdleHold': 'EvIdleHoldExpires'}
KNOWN = {
    (4, 'EvNotifOther'): 'C01-opensent-notification-silent-close',
    (6, '(EvOpenErr 1)'): 'C01-established-open-error-code', (6, '(EvOpenErr 2)'): 'C01-established-open-error-code',
    (6, '(EvOpenErr 6)'): 'C01-established-open-error-code',
}
RSTATE = {1: 'RIdle', 2: 'RConnect', 3: 'RActive', 4: 'ROpenSent', 5: 'ROpenConfirm', 6: 'REstablished'}


def live_count(st):
    return sum(1 for c in st[7] if c[0] == 0 or (c[0] == 1 and not c[1]))


def classify(e, before):
    k = e[0]
    if k == 'data':
        nm = sc.name_of(e)[2]
        return MSG_EVENT.get(nm)
    if k == 'fire':
        return TIMER_EVENT.get(e[1])
    if k == 'connfail':
        return 'EvTcpFails'
    if k == 'lost':
        c = before[7][e[1]]
        return 'EvTcpFails' if not c[1] else None      # peer closed (not our own close completing)
    if k == 'stop':
        return 'EvManualStop'
    if k == 'start':
        return 'EvManualStart'
    return None


def observed(before, r, e=None):
    st = r[2]
    skip = {'TConnectRetry': 0, 'THold': 1, 'TKeepAlive': 2, 'TDelayOpen': 3, 'TIdleHold': 4}.get(e[1]) if e and e[0] == 'fire' else None
    notifs = [o[2][1:3] for o in r[1] if o[0] == 1 and o[2][0] == 3]
    sends = [o[2][0] for o in r[1] if o[0] == 1 and o[2][0] in (1, 4)]
    same = (st[0] == before[0] and not [o for o in r[1] if o[0] != 3] and
            [t[0] for i, t in enumerate(st[6]) if i != skip] == [t[0] for i, t in enumerate(before[6]) if i != skip]
            and st[4] == before[4])
    # handler reports of a received message are not part of the FSM reaction
    react = '(mkR %s %s %s [%s] %s %s)' % (
        RSTATE[st[0]], '(Some (%d, %d))' % tuple(notifs[0]) if notifs else 'None',
        'true' if any(o[0] == 2 for o in r[1]) else 'false', '; '.join(str(x) for x in sends),
        'true' if any(o[0] == 0 for o in r[1]) else 'false', 'true' if st[6][4][0] else 'false')
    return same, react


def run(ctx):
    viol, samples = [], []
    cases = []           # (state, event class, same, reaction text, path)
    mism_all = []
    stats_all = {}
    cfgs = [{}, {'hold_time': 9, 'connect_retry_time': 10, 'idle_hold_time': 5}] if ctx.thorough else [{}]
    for kw in cfgs:
        depth = 6 if ctx.thorough else 5
        leaves, edges, mism, stats = sc.explore_compare(ctx, kw, MSGS, depth)
        mism_all += mism
        stats_all[repr(kw)] = stats
        seen_pairs = set()
        # directed edges: every message variant in every session state
        M = sc.ALL_MSGS
        directed = []
        for prefix in ((('boot',), ('connok', 0)), (('boot',), ('connok', 0), ('data', 0, M['open_ok'])), tuple(sc.EST_PREFIX)):
            for nm in DIRECTED:
                directed.append(tuple(prefix) + (('data', 0, M[nm]),))
        runs, mism_d = sc.compare_traces(ctx, [(kw, list(p)) for p in directed], per_shard=30)
        mism_all += mism_d
        leaves = list(leaves) + [(p, r[1], r[2], r[0]) for p, r in zip(directed, runs)]
        for path, cevs, res, d in leaves:
            # the last step of each explored path is one (state, event) edge
            before = res[-2][2] if len(res) > 1 else None
            if before is None:
                continue
            e = path[-1]
            r = res[-1]
            if not r[0]:
                continue
            if live_count(before) > 1 or live_count(r[2]) > 1:
                continue            # not the single-connection regime (C12)
            # messages must arrive on the tracked connection
            if e[0] in ('data', 'lost') and (not before[5] or before[5][0] != e[1]):
                continue
            ev = classify(e, before)
            if ev is None:
                continue
            if e[0] == 'connfail' and before[0] != 2:
                continue
            if not before[4] and ev != 'EvManualStart':
                continue            # operator stopped the peer: automatic recovery is off (C13)
            same, react = observed(before, r, e)
            key = (before[0], ev, same, react)
            if key in seen_pairs:
                continue
            seen_pairs.add(key)
            cases.append((before[0], ev, same, react, path))
    # evaluate the Coq profile on the observed reactions
    n = len(cases)
    bad = []
    if ctx.coq_ok:
        per = 300
        shards = []
        for i in range(0, n, per):
            body = ';\n'.join('(%d, %s, %s, %s)' % (s, ev, 'true' if same else 'false', react)
                              for (s, ev, same, react, _) in cases[i:i + per])
            shards.append('Definition obs : list (N * revent * bool * reaction) := [\n%s\n].\n'
                          'Eval vm_compute in (nonconforming_from 0 obs).\n' % body)
        for k, (rc, out) in enumerate(common.coq_eval_shards('C01', shards,
                                                             imports='From YV Require Import lib.Base spec.RfcFsm.\n')):
            idx = common.parse_nats(out)
            if rc != 0 or idx is None:
                mism_all.append({'what': 'profile case file %d does not evaluate: %s' % (k, common.first_error(out))})
                continue
            bad += [k * per + i for i in idx]
    seen_known = set()
    for j in bad:
        s, ev, same, react, path = cases[j]
        kid = KNOWN.get((s, ev))
        if kid and kid in seen_known:
            continue
        if kid:
            seen_known.add(kid)
        viol.append({'what': 'state %s, event %s: reaction %s (unchanged=%s) is not the RFC profile\'s'
                             % (RSTATE[s], ev, react, same),
                     'events': [sc.name_of(x) for x in path], 'known': kid})
    pairs = sorted({(RSTATE[c[0]], c[1]) for c in cases})
    samples = [{'state': RSTATE[c[0]], 'event': c[1], 'reaction': c[3]} for c in cases[:6]]
    return {'evaluations': n + sum(s['explored_edges'] for s in stats_all.values()), 'distinct': len(pairs),
            'rule': 'breadth-first exploration of the real session layer (state de-duplication) over the C01 alphabet; the last '
                    'step of every explored path in the single-connection regime is classified as (state, RFC event) and its '
                    'reaction evaluated against spec/RfcFsm.v inside Coq; distinct = distinct (state, event) pairs reached',
            'samples': samples, 'mismatches': mism_all, 'violations': viol,
            'extra': dict(stats_all, state_event_pairs=[list(p) for p in pairs], distinct_reactions=n)}


def replay(ctx, obj):
    print(obj.get('violation', obj))
    return 0
