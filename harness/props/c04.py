"""C04 — framing independent of TCP segmentation, reference deframer, bounded time."""
import struct
import time

import env  # noqa: F401
import session
import explore
from props import session_common as sc

COQ_TARGETS = ['props/C04.vo', 'model/YSessionSx.vo']
TRUSTED = sc.TRUSTED
ASSUMPTIONS = sc.ASSUMPTIONS + ['CPU time is measured on the implementation (budget 2 s per dataReceived call); '
                                'the theorem bounds loop iterations']
MARK = b'\xff' * 16


def ref_deframe(stream):
    """independent RFC 4271 deframer: ([(type, body)...], error or None, rest)"""
    frames = []
    i = 0
    while True:
        if len(stream) - i < 19:
            return frames, None, stream[i:]
        if stream[i:i + 16] != MARK:
            return frames, (1, 1, b''), stream[i:]
        ln, ty = struct.unpack('!HB', stream[i + 16:i + 19])
        if ln < 19 or ln > 4096:
            return frames, (1, 2, struct.pack('!H', ln)), stream[i:]
        if len(stream) - i < ln:
            return frames, None, stream[i:]
        body = stream[i + 19:i + ln]
        if ty not in (1, 2, 3, 4, 5, 128):
            frames.append((ty, body))
            return frames, (1, 3, struct.pack('!H', ty)), stream[i + ln:]
        frames.append((ty, body))
        i += ln


REPORT_OF = {1: 4, 2: None, 3: 8, 4: 5}     # frame type -> handler report number (session.HCALL)


def observe(kw, chunks):
    """Established session, then the chunks; returns (observation, worst call seconds, driver)"""
    d = session.Driver(**kw)
    for e in sc.EST_PREFIX:
        d.apply(e)
    outs = []
    worst = 0.0
    for ch in chunks:
        t = time.process_time()
        r = d.apply(('data', 0, ch))
        worst = max(worst, time.process_time() - t)
        if r[0]:
            outs += r[1]
    st = d.state()
    conn = st[7][0]
    # what is still buffered can only be a suffix of what this connection received
    delivered = b''.join(sc.EST_PREFIX[i][2] for i in range(len(sc.EST_PREFIX)) if sc.EST_PREFIX[i][0] == 'data') + \
        b''.join(chunks)
    left = bytes(conn[3])
    # (after our own close Twisted stops reading, so it need not be a suffix of everything sent)
    if len(left) > len(delivered) or (left and left not in delivered):
        raise ForeignOctets(len(left), len(delivered))
    closed = conn[1] or conn[2]
    if closed:
        st[7][0] = conn[:3] + [b''] + conn[4:]
    return (outs, st), worst, d


class ForeignOctets(Exception):
    """the receive buffer holds octets this connection never received"""


def cuts_of(stream, rng, thorough):
    n = len(stream)
    cs = [[stream]]
    if n <= (400 if thorough else 60):
        cs += [[stream[:i], stream[i:]] for i in range(1, n)]
    else:
        cs += [[stream[:i], stream[i:]] for i in sorted(rng.sample(range(1, n), min(n - 1, 24)))]
        cs += [[stream[:i], stream[i:]] for i in (1, 15, 16, 17, 18, 19, 20, n - 1) if 0 < i < n]
    if n <= (40 if thorough else 24):
        for i in range(1, n):
            for j in range(i + 1, n, max(1, n // 8)):
                cs.append([stream[:i], stream[i:j], stream[j:]])
    if n <= 300:
        cs.append([stream[i:i + 1] for i in range(n)])
    for _ in range(6 if thorough else 2):
        pts = sorted(rng.sample(range(1, n), min(n - 1, rng.randrange(1, 6)))) if n > 1 else []
        cs.append([stream[a:b] for a, b in zip([0] + pts, pts + [n])])
    return cs


def streams(ctx):
    rng = ctx.rng
    M = sc.ALL_MSGS
    good = ['keepalive', 'update_ok', 'update_bad', 'route_refresh', 'route_refresh_cisco', 'keepalive']
    fatal = ['notif_cease', 'open_ok', 'bad_marker', 'bad_len_zero', 'bad_len_small', 'bad_len_big',
             'unknown_type', 'unknown_type0', 'keepalive_body', 'notif_short', 'route_refresh_short',
             'update_garbage', 'open_short']
    out = []
    for f in fatal:
        out.append([f])
        out.append(['keepalive', f, 'update_ok'])
        out.append(['update_ok', 'update_ok', f, 'keepalive', 'keepalive'])
    for _ in range(40 if ctx.thorough else 10):
        k = rng.randrange(1, 7)
        names = [rng.choice(good) for _ in range(k)]
        if rng.random() < 0.6:
            names.insert(rng.randrange(0, k + 1), rng.choice(fatal))
        out.append(names)
    res = [(names, b''.join(M[n] for n in names)) for names in out]
    # truncated tails
    for names, s in list(res[:12]):
        res.append((names + ['<truncated>'], s[:-rng.randrange(1, min(19, len(s)))]))
    # every length-field value (thorough) / boundaries + sample (quick), on a KEEPALIVE and an UPDATE header
    lens = list(range(0, 65536)) if ctx.thorough else \
        sorted(set([0, 1, 18, 19, 20, 22, 23, 4095, 4096, 4097, 65535] + [rng.randrange(65536) for _ in range(40)]))
    for ln in lens:
        for ty in ((4, 2) if not ctx.thorough or ln % 257 == 0 or ln < 64 or 4080 < ln < 4112 else (4,)):
            body = b'\x00' * 4
            s = M['keepalive'] + MARK + struct.pack('!HB', ln, ty) + body + M['keepalive']
            res.append((['keepalive', '<len=%d type=%d>' % (ln, ty), 'keepalive'], s))
    # every type octet
    for ty in range(256):
        res.append((['<type=%d>' % ty, 'keepalive'], MARK + struct.pack('!HB', 19, ty) + M['keepalive']))
    return res


def run(ctx):
    """the whole stream set under the default configuration, and the streams that carry ROUTE-REFRESH / unusual type
    octets under a configuration whose local capability set is minimal (no route refresh of either kind, no
    4-octet AS ...): framing must not depend on what was configured or negotiated"""
    sts = streams(ctx)
    res = _run_cfg(ctx, {}, sts)
    minimal = {'caps': {'four_bytes_as': False, 'route_refresh': False, 'cisco_route_refresh': False,
                        'enhanced_route_refresh': False, 'graceful_restart': False, 'cisco_multi_session': False,
                        'add_path': None}}
    sub = [(n, st) for (n, st) in sts if any(x.startswith('route_refresh') or x.startswith('<type=') for x in n)]
    if not ctx.thorough:
        sub = sub[:40] + sub[40::7]
    res2 = _run_cfg(ctx, minimal, sub)
    for v in res2['violations']:
        v['config'] = 'minimal local capability set'
    for k in ('evaluations',):
        res[k] += res2[k]
    res['violations'] += res2['violations']
    res['mismatches'] += res2['mismatches']
    res['extra']['minimal_capability_config'] = {'streams': len(sub), 'segmentations_run': res2['extra']['segmentations_run']}
    return res


def _run_cfg(ctx, kw, sts):
    viol, traces, samples = [], [], []
    n_eval = 0
    distinct = set()
    worst = 0.0
    err_kinds = {}
    foreign = 0
    for names, stream in sts:
        if foreign >= 3:
            break
        frames, err, rest = ref_deframe(stream)
        is_len_sweep = names and names[-1] == 'keepalive' and len(names) > 1 and names[1].startswith('<len=')
        is_type_sweep = names[0].startswith('<type=')
        cs = [[stream], [stream[:19], stream[19:]], [stream[i:i + 1] for i in range(len(stream))]] \
            if (is_len_sweep or is_type_sweep) and len(stream) < 200 else \
            ([[stream]] if (is_len_sweep or is_type_sweep) else cuts_of(stream, ctx.rng, ctx.thorough))
        base = None
        for chunks in cs:
            chunks = [c for c in chunks]
            try:
                ob, wc, d = observe(kw, chunks)
            except ForeignOctets as fo:
                viol.append({'what': 'the receive buffer of a fresh connection holds %d unparsed octets after %d '
                                     'were delivered: octets of another connection (messages are not taken from '
                                     'this connection\'s stream alone)' % fo.args,
                             'names': names, 'chunks': [c.hex() for c in chunks], 'known': None})
                foreign += 1
                if foreign >= 3:
                    break
                continue
            worst = max(worst, wc)
            n_eval += 1
            if wc > 2.0:
                viol.append({'what': 'dataReceived took %.1f s CPU' % wc, 'names': names,
                             'chunks': [c.hex() for c in chunks], 'known': None})
            if base is None:
                base = ob
                # reference deframer: error reaction
                notifs = [o[2] for o in ob[0] if o[0] == 1 and o[2][0] == 3]
                hdr_notifs = [n for n in notifs if n[1] == 1]
                if err is not None:
                    err_kinds[err[:2]] = err_kinds.get(err[:2], 0) + 1
                # the agent may close earlier because of the FSM's reaction to a well-framed message;
                # if it reaches the framing error it must answer (1, sub, data) and close
                reports = [o[1] for o in ob[0] if o[0] == 3 and o[1] in (4, 5, 6, 7, 8, 105, 228)]
                exp = []
                for ty, body in frames:
                    if ty in (5, 128):
                        exp.append(100 + ty if len(body) == 4 else None)
                    elif ty == 2:
                        # a body the UPDATE decoder raises on is swallowed without a report (C10/C11)
                        cls = d.tables['upd4'].get(bytes(body)) or d.tables['upd2'].get(bytes(body))
                        exp.append('upd' if cls in ('UpOk', 'UpSubErr') else None)
                    elif ty == 3:
                        exp.append(8 if len(body) >= 2 else None)
                    elif ty == 4:
                        exp.append(5)
                    elif ty == 1:
                        exp.append('open')
                    else:
                        exp.append(None)
                # reports must follow the reference frame order, one per frame at most
                j = 0
                ok = True
                for rep in reports:
                    while j < len(exp) and not (exp[j] == rep or (exp[j] == 'upd' and rep in (6, 7))
                                                or (exp[j] == 'open' and rep == 4)):
                        j += 1
                    if j == len(exp):
                        ok = False
                        break
                    j += 1
                closed = any(o[0] == 2 for o in ob[0])
                if not ok:
                    viol.append({'what': 'handler reports are not a sub-sequence of the reference frames',
                                 'names': names, 'stream': stream.hex(), 'reports': reports, 'known': None})
                if not closed:
                    # every frame must have been handled: all expected reports present (UPDATE always reports)
                    want = [e for e in exp if e is not None and e != 'open']
                    if len([r for r in reports if r != 4]) != len(want):
                        viol.append({'what': 'a well-framed message was lost or duplicated',
                                     'names': names, 'stream': stream.hex(), 'reports': reports, 'known': None})
                    if err is not None:
                        viol.append({'what': 'framing error %r not answered with a close' % (err,),
                                     'names': names, 'stream': stream.hex(), 'known': None})
                benign = all((ty == 4 and body == b'') or (ty == 2 and body in (explore.UPDATE_OK, explore.UPDATE_BAD))
                             or (ty in (5, 128) and len(body) == 4) for ty, body in
                             (frames[:-1] if err[1] == 3 else frames)) if err is not None else False
                if err is not None and benign:
                    # the agent got as far as the framing error: check code/subcode/data
                    if not hdr_notifs or hdr_notifs[0][1:3] != [1, err[1]] or bytes(hdr_notifs[0][3]) != err[2]:
                        viol.append({'what': 'framing error %r answered with %r' % (err, notifs),
                                     'names': names, 'stream': stream.hex(), 'known': None})
                distinct.add(repr(ob[0]))
                if len(samples) < 6:
                    samples.append({'stream': names, 'octets': len(stream), 'ref_frames': len(frames),
                                    'ref_error': err and list(err[:2]), 'cuts': len(cs)})
            elif ob != base:
                viol.append({'what': 'behaviour depends on segmentation', 'names': names,
                             'chunks': [c.hex() for c in chunks], 'one_shot': repr(base[0])[:400],
                             'chunked': repr(ob[0])[:400], 'known': None})
        # model correspondence on a few segmentations of this stream
        picks = [cs[0]] + ([cs[len(cs) // 2]] if len(cs) > 2 else []) + ([cs[-1]] if len(cs) > 1 else [])
        if is_len_sweep and ctx.thorough and (len(traces) > 3000):
            picks = []
        for chunks in picks:
            traces.append((kw, list(sc.EST_PREFIX) + [('data', 0, c) for c in chunks]))
    # drop events that are not enabled (after a close) from the model traces? No: the model's
    # `step` ignores a disabled event exactly like the driver does.
    if not ctx.thorough and len(traces) > 700:
        traces = traces[:500] + ctx.rng.sample(traces[500:], 200)
    runs, mism = ([], []) if foreign else sc.compare_traces(ctx, traces, per_shard=30)
    return {'evaluations': n_eval + len(traces), 'distinct': len(distinct),
            'rule': 'streams of valid/invalid messages (every type octet; length-field values: all 65536 in thorough, '
                    'boundaries+sample in quick; corrupt markers; truncated tails) x segmentations (one-shot, every '
                    '1-cut, 2-cuts of short streams, byte-at-a-time, random); distinct = distinct observation '
                    'sequences (outputs of the agent)',
            'samples': samples, 'mismatches': mism, 'violations': viol,
            'extra': {'streams': len(sts), 'segmentations_run': n_eval, 'model_traces': len(traces),
                      'worst_dataReceived_cpu_s': round(worst, 4),
                      'reference_error_kinds': {str(k): v for k, v in err_kinds.items()}}}


def replay(ctx, obj):
    v = obj.get('violation', obj)
    chunks = [bytes.fromhex(c) for c in v.get('chunks', [])] or [bytes.fromhex(v['stream'])]
    ob, wc, d = observe({}, chunks)
    print(ob[0])
    return 0
