"""C17 — decoded community text is accepted back by the REST interface and re-encodes the same.

For every kind of extended community the decoder renders as text, every community (well-known
names included) and every large community:
    RFC octets  --REAL parse-->  text  --REAL Flask view /v1/peer/<ip>/json_to_bin-->  'bin'
and the attribute (16 / 8 / 32) inside 'bin' must be the RFC octets again and decode to the same
text (property oracle, no model involved).  Correspondence: ExtCommunity.parse / .construct, the
view's "extended community recombine" translation, Community and LargeCommunity parse/construct
are compared with coq/model/{YExtCom,YRestEc,YCommunity,YLargeCom}.v evaluated inside Coq, on
the oracle's inputs plus a malformed-text stream; the hand-copied name tables of the model are
compared with the live dictionaries of yabgp/common/constants.py.

Lists: besides random mixed lists, for EVERY kind (each of the 18 extended wire formats, standard,
large) lists with 2 and 3 members of the SAME kind with DIFFERENT values, in both orders, with
members of other kinds in between, through BOTH views (json_to_bin and send/update); the three
attributes together in one request; and the law "the recombination of a list is the concatenation
of the recombinations of its members" checked on the implementation (no state may be carried from
one member to the next; coq/model/YRestEc.v [rest_ec] is a map over the list and is compared with
both views on exactly these lists).

Sessions: the peering is a real BGPPeering driven by harness/session.py's Driver; the remote
capabilities the views consult are the ones the REAL session recorded from the peer's OPEN (they
are pinned only for the capability variants of the correspondence run).  REST reads (every GET that
is not an action, HEAD, requests without credentials, and the guarded POSTs, which are refused
outside Established) are issued in every pre-Established FSM state (Idle, Connect, OpenSent,
OpenConfirm) of a first session, of a session after a loss, after a manual stop/start and with a
peer without the 4-octet-AS capability; then the session is completed and the round-trip posts are
made: every result must equal the result in the same session without the reads, and every read or
refused request must leave CONF.bgp.running_config and the abstract session state (Driver.state)
unchanged.  The same no-effect oracle runs on reads, refused posts and json_to_bin in Established.
"""
import base64
import copy
import itertools
import json
import struct

import env  # noqa: F401  (stubs + repo on sys.path)
from env import CONF
# the REST application registers CLI options: must be imported before the first CONF(...) call
from yabgp.api.app import app as flask_app  # noqa: E402
from yabgp.api import utils as api_utils  # noqa: E402
import common  # noqa: E402
import session  # noqa: E402
from session import Bytes, coq_sx, coq_bytes  # noqa: E402

COQ_TARGETS = ['props/C17.vo']
TRUSTED = ['Python struct (binary32 packing for traffic-rate), json, flask test client; netaddr '
           'IPAddress/EUI text <-> integer conversion is modelled for dotted quads / xx-xx MAC text only',
           'RFC transcription in harness/props/c17.py (ref_*) mirrors coq/spec/RefCom.v']
ASSUMPTIONS = ['model/YExtCom.v, YRestEc.v, YCommunity.v, YLargeCom.v are hand-written and tied to '
               'yabgp/message/attribute/{extcommunity,community,largecommunity}.py and yabgp/api/v1.py by the '
               'correspondence run of this check; the name tables in them are compared with constants.py',
               'route-target/route-origin with a 4-octet AS need the peer to have announced the 4-octet-AS '
               'capability (the view refuses otherwise); route-origin needs non-empty remote capabilities',
               'strings are ASCII',
               'a REST request is served between two events of the session layer (Flask runs in the reactor thread '
               'of yabgp), never inside one: reads are interleaved at every event boundary of the session scripts '
               '(first session, after a loss, after manual stop/start, after a failed attempt, peer without the '
               '4-octet-AS capability), not inside the processing of one message',
               'lists: 1..31 extended communities, up to 63 communities, 1..21 large communities (one length octet, '
               'as the constructors pack it)']
IMPORTS = ('From Coq Require Import ZArith.\n'
           'From YV Require Import lib.Base lib.Dec gen.Consts model.YExtCom model.YRestEc '
           'model.YCommunity model.YLargeCom.\n')
PEER = '10.0.0.2'

# ------------------------------------------------------------------------------------------
# RFC reference encoders (Python transcription of coq/spec/RefCom.v) -- 8 octets per value
# ------------------------------------------------------------------------------------------


def be(k, n):
    assert 0 <= n < 256 ** k, (k, n)
    return n.to_bytes(k, 'big')


def f32_of_int(n):
    """IEEE 754 binary32 octets of an integer that is exactly representable (RFC 5575 sec. 7)"""
    if n == 0:
        return b'\x00\x00\x00\x00'
    sign = 0
    if n < 0:
        sign, n = 1, -n
    e = n.bit_length() - 1
    assert e < 128
    if e <= 23:
        frac = (n << (23 - e)) - (1 << 23)
    else:
        assert n % (1 << (e - 23)) == 0, 'not representable'
        frac = (n >> (e - 23)) - (1 << 23)
    return be(4, (sign << 31) | ((e + 127) << 23) | frac)


KINDS = {
    # kind: (type code, field names, reference encoder of the 6 value octets, text of the value)
    'rt_as2': (0x0002, lambda a, n: be(2, a) + be(4, n)),          # RFC 4360 3.1 / 4
    'rt_ip4': (0x0102, lambda ip, n: be(4, ip) + be(2, n)),        # RFC 4360 3.2 / 4
    'rt_as4': (0x0202, lambda a, n: be(4, a) + be(2, n)),          # RFC 5668 2
    'ro_as2': (0x0003, lambda a, n: be(2, a) + be(4, n)),          # RFC 4360 5
    'ro_ip4': (0x0103, lambda ip, n: be(4, ip) + be(2, n)),
    'ro_as4': (0x0203, lambda a, n: be(4, a) + be(2, n)),
    'color': (0x030b, lambda c: b'\x00\x00' + be(4, c)),           # RFC 5512 4.3 (reserved = 0)
    'encap': (0x030c, lambda t: b'\x00\x00\x00\x00' + be(2, t)),   # RFC 5512 4.5
    'redirect_vrf': (0x8008, lambda a, n: be(2, a) + be(4, n)),    # RFC 5575 7 (6-octet RT, AS2 form)
    'redirect_nh': (0x0800, lambda ip, c: be(4, ip) + be(2, c)),   # yabgp's own layout (doc/), no RFC
    'traffic_rate': (0x8006, lambda a, r: be(2, a) + f32_of_int(r)),  # RFC 5575 7
    'traffic_action': (0x8007, lambda s, t: b'\x00' * 5 + bytes([s * 2 + t])),  # RFC 5575 7 bits 46,47
    'traffic_marking': (0x8009, lambda d: b'\x00' * 5 + bytes([d])),   # RFC 5575 7
    'dmzlink_bw': (0x4004, lambda a, b: be(2, a) + be(4, b)),      # RFC 4360 3.1 layout, value opaque
    'esi_label': (0x0601, lambda f, l: bytes([f]) + b'\x00\x00' + be(3, l * 16 + 1)),  # RFC 7432 7.5
    'mac_mobility': (0x0600, lambda f, s: bytes([f, 0]) + be(4, s)),   # RFC 7432 7.7
    'es_import': (0x0602, lambda m: be(6, m)),                     # RFC 7432 7.6
    'router_mac': (0x0603, lambda m: be(6, m)),                    # RFC 9135 (EVPN router's MAC)
}
KIND_ORDER = ['rt_as2', 'rt_ip4', 'rt_as4', 'ro_as2', 'ro_ip4', 'ro_as4', 'color', 'encap',
              'redirect_vrf', 'redirect_nh', 'traffic_rate', 'traffic_action', 'traffic_marking',
              'dmzlink_bw', 'esi_label', 'mac_mobility', 'es_import', 'router_mac']
# the 14 kinds of the property text -> the wire formats above
KIND_OF_TEXT = {'route-target': ['rt_as2', 'rt_ip4', 'rt_as4'], 'route-origin': ['ro_as2', 'ro_ip4', 'ro_as4'],
                'color': ['color'], 'encapsulation': ['encap'], 'redirect-vrf': ['redirect_vrf'],
                'redirect-nexthop': ['redirect_nh'], 'traffic-rate': ['traffic_rate'],
                'traffic-action': ['traffic_action'], 'traffic-marking': ['traffic_marking'],
                'dmzlink-bw': ['dmzlink_bw'], 'esi-label': ['esi_label'], 'mac-mobility': ['mac_mobility'],
                'es-import': ['es_import'], 'router-mac': ['router_mac']}


def ref_ec(kind, v):
    code, enc = KINDS[kind]
    b = be(2, code) + enc(*v)
    assert len(b) == 8
    return b


def ref_community(v):          # RFC 1997: 4 octets
    return be(4, v)


def ref_large(v):              # RFC 8092: 3 x 4 octets
    return be(4, v[0]) + be(4, v[1]) + be(4, v[2])


# field ranges per kind (wf of RefCom.v)
B16 = [0, 1, 2, 255, 256, 23456, 32767, 32768, 65534, 65535]
B32 = [0, 1, 255, 256, 65535, 65536, 65537, 2 ** 24 - 1, 2 ** 24, 2 ** 31 - 1, 2 ** 31, 2 ** 31 + 1,
       4199999999, 2 ** 32 - 2, 2 ** 32 - 1]
B32_HI = [65536, 65537, 131072, 2 ** 24, 2 ** 31 - 1, 2 ** 31, 4200000000, 2 ** 32 - 1]
B8 = [0, 1, 2, 127, 128, 254, 255]
IPS = [0, 1, 0x01020304, 0x0A000001, 0x7F000001, 0xC0A80101, 0xE0000001, 0xFFFFFF00, 0xFFFFFFFF,
       0x0A0A0A0A, 0x64646464, 0x00FF00FF]
MACS = [0, 1, 0xFFFFFFFFFFFF, 0x001BAABBCCDD, 0x0A0B0C0D0E0F, 0xA0B0C0D0E0F0, 0x000000000010, 0x99AAFF00FF01]
RATES = [0, 1, 2, 3, 1000, 65535, 65536, 2 ** 23 - 1, 2 ** 23, 2 ** 24 - 1]
RATES_BIG = [2 ** 24, 2 ** 24 + 2, 2 ** 25 - 2, 125000000, 10 ** 9 // 64 * 64, 2 ** 31, 2 ** 40, (2 ** 24 - 1) << 104]
FIELDS = {
    'rt_as2': (B16, B32), 'rt_ip4': (IPS, B16), 'rt_as4': (B32_HI, B16),
    'ro_as2': (B16, B32), 'ro_ip4': (IPS, B16), 'ro_as4': (B32_HI, B16),
    'color': (B32,), 'encap': (B16,), 'redirect_vrf': (B16, B32), 'redirect_nh': (IPS, B16),
    'traffic_rate': (B16, RATES + RATES_BIG), 'traffic_action': ([0, 1], [0, 1]),
    'traffic_marking': (list(range(64)),), 'dmzlink_bw': (B16, B32),
    'esi_label': (B8, [0, 1, 15, 16, 1000, 2 ** 19, 2 ** 20 - 2, 2 ** 20 - 1]),
    'mac_mobility': (B8, B32), 'es_import': (MACS,), 'router_mac': (MACS,),
}
RANGE = {
    'rt_as2': (2 ** 16, 2 ** 32), 'rt_ip4': (2 ** 32, 2 ** 16), 'rt_as4': (2 ** 32, 2 ** 16),
    'ro_as2': (2 ** 16, 2 ** 32), 'ro_ip4': (2 ** 32, 2 ** 16), 'ro_as4': (2 ** 32, 2 ** 16),
    'color': (2 ** 32,), 'encap': (2 ** 16,), 'redirect_vrf': (2 ** 16, 2 ** 32),
    'redirect_nh': (2 ** 32, 2 ** 16), 'traffic_rate': (2 ** 16, 2 ** 24), 'traffic_action': (2, 2),
    'traffic_marking': (64,), 'dmzlink_bw': (2 ** 16, 2 ** 32), 'esi_label': (256, 2 ** 20),
    'mac_mobility': (256, 2 ** 32), 'es_import': (2 ** 48,), 'router_mac': (2 ** 48,),
}


def rand_field(rng, bound):
    """random value below bound, biased to few significant bits / all sizes"""
    bits = rng.randrange(0, bound.bit_length())
    return min(bound - 1, rng.getrandbits(bits) if bits else 0) if rng.random() < 0.5 else rng.randrange(bound)


def gen_values(ctx):
    """[(kind, value tuple)] boundary product + random"""
    rng = ctx.rng
    out = []
    nrand = 400 if ctx.thorough else 40
    for kind in KIND_ORDER:
        fs = FIELDS[kind]
        if len(fs) == 1:
            vals = [(a,) for a in fs[0]]
        else:
            vals = [(a, b) for a in fs[0] for b in fs[1]]
            if not ctx.thorough and len(vals) > 60:
                keep = [(a, b) for a in fs[0] for b in (fs[1][0], fs[1][-1])] + \
                       [(a, b) for a in (fs[0][0], fs[0][-1]) for b in fs[1]]
                vals = keep + rng.sample(vals, 30)
        for i in range(nrand):
            v = tuple(rand_field(rng, b) for b in RANGE[kind])
            if kind in ('rt_as4', 'ro_as4') and i % 8:
                v = (max(v[0], 65536 + (v[0] % 7)), v[1])
            vals.append(v)
        seen = set()
        for v in vals:
            if v not in seen:
                seen.add(v)
                out.append((kind, v))
    # the 4-octet-AS formats with an AS number that fits 2 octets (RFC 5668 allows them on the wire)
    for kind in ('rt_as4', 'ro_as4'):
        for a in (0, 1, 100, 65535):
            for n in (0, 5, 65535):
                out.append((kind, (a, n)))
    return out


WELL_KNOWN_RFC = {   # IANA BGP well-known communities registry (RFC 1997, 3765, 7611, 7999, 8326 ...)
    0xFFFF0000, 0xFFFF0001, 0xFFFF0002, 0xFFFF0003, 0xFFFF0004, 0xFFFF0005, 0xFFFF029A,
    0xFFFFFF01, 0xFFFFFF02, 0xFFFFFF03, 0xFFFFFF04}


def gen_communities(ctx):
    from yabgp.common import constants as C
    rng = ctx.rng
    vals = list(C.WELL_KNOW_COMMUNITY_INT_2_STR) + sorted(WELL_KNOWN_RFC)
    vals += [v + d for v in list(vals) for d in (-1, 1) if 0 <= v + d < 2 ** 32]
    vals += [h * 65536 + l for h in (0, 1, 255, 256, 65000, 65534, 65535) for l in (0, 1, 255, 256, 666, 65281, 65535)]
    vals += [rng.randrange(2 ** 32) for _ in range(2000 if ctx.thorough else 150)]
    vals += [0xFFFF0000 + rng.randrange(2 ** 16) for _ in range(500 if ctx.thorough else 40)]
    return sorted(set(vals))


def gen_large(ctx):
    rng = ctx.rng
    b = [0, 1, 65535, 65536, 2 ** 31 - 1, 2 ** 31, 2 ** 32 - 1]
    vals = [(x, y, z) for x in b for y in b for z in b]
    if not ctx.thorough:
        vals = [(x, x, x) for x in b] + [(x, 0, 0) for x in b] + [(0, x, 0) for x in b] + \
               [(0, 0, x) for x in b] + rng.sample(vals, 40)
    vals += [tuple(rand_field(rng, 2 ** 32) for _ in range(3)) for _ in range(1000 if ctx.thorough else 80)]
    return sorted(set(vals))


# ------------------------------------------------------------------------------------------
# the implementation: a real peering driven to Established + the real Flask application
# ------------------------------------------------------------------------------------------
FSM_NAME = {1: 'Idle', 2: 'Connect', 3: 'Active', 4: 'OpenSent', 5: 'OpenConfirm', 6: 'Established'}


def session_scripts():
    """name -> (steps, does the peer announce the 4-octet-AS capability).  A step is ('ev', driver event)
    or ('rp', read point name, FSM state expected there): the places where REST reads may be interleaved"""
    import explore
    m = dict(explore.messages())
    open2 = explore.frame(1, explore.open_body(asn=65002, caps=(b'\x02\x06\x01\x04\x00\x01\x00\x01',
                                                                  b'\x02\x02\x02\x00')))

    def attempt(c, tag='', op=m['open_ok']):
        return [('rp', 'connect' + tag, 2), ('ev', ('connok', c)), ('rp', 'opensent' + tag, 4),
                ('ev', ('data', c, op)), ('rp', 'openconfirm' + tag, 5), ('ev', ('data', c, m['keepalive']))]
    first = [('rp', 'idle', 1), ('ev', ('boot',))] + attempt(0)
    plain = [s for s in first if s[0] == 'ev']
    return {
        'first': (first, True),
        # the session is lost and comes up again on a second connection
        'after_loss': (plain + [('ev', ('lost', 0)), ('rp', 'idle_after_loss', 1), ('ev', ('fire', 'TIdleHold'))]
                       + attempt(1, '2'), True),
        # operator stops and starts the session
        'restart': (plain + [('ev', ('stop',)), ('rp', 'idle_stopped', 1), ('ev', ('start',))] + attempt(1, '2'), True),
        # the first attempt fails, the second one succeeds
        'retry': ([('ev', ('boot',)), ('ev', ('connfail', 0)), ('rp', 'idle_connect_failed', 1),
                   ('ev', ('fire', 'TIdleHold'))] + attempt(1, '2'), True),
        # a peer that announces multiprotocol + route refresh only (no 4-octet-AS capability)
        'peer_without_as4': ([('rp', 'idle', 1), ('ev', ('boot',))] + attempt(0, '', open2), False),
    }


def read_points(script):
    return [s[1] for s in session_scripts()[script][0] if s[0] == 'rp']


def read_requests(established):
    """(method, url, json body or None, with credentials?): requests that must not change anything.
    Every GET of the API that is not an action (manual-start/-stop are), HEAD, a request without
    credentials; outside Established the POSTs guarded by makesure_peer_establish (refused there); in
    Established the posts the views refuse or answer without sending (json_to_bin, rib look-ups)."""
    p = '/v1/peer/%s' % PEER
    upd = {'attr': {'1': 0, '2': [], '3': '10.0.0.1', '16': ['route-origin:100:1', 'route-target:70000:1']},
           'nlri': ['10.0.0.0/8']}
    bad = {'attr': {'1': 0, '2': [], '3': '10.0.0.1', '16': ['no-such-community:1']}, 'nlri': ['10.0.0.0/8']}
    rq = [('GET', '/v1/', None, True), ('GET', p + '/state', None, True), ('GET', p + '/statistic', None, True),
          ('GET', p + '/version/send', None, True), ('GET', p + '/version/received', None, True),
          ('GET', p + '/version/other', None, True), ('HEAD', p + '/state', None, True),
          ('GET', p + '/state', None, False), ('POST', p + '/json_to_bin', upd, False),
          ('POST', p + '/json_to_bin', upd, True), ('POST', p + '/json_to_bin', bad, True),
          ('POST', p + '/json_to_bin', {'unrelated': 1}, True),
          ('POST', p + '/adj-rib-in', {'data': ['10.0.0.0/8']}, True),
          ('POST', p + '/adj-rib-out', {'data': ['10.0.0.0/8']}, True),
          ('POST', p + '/send/update', bad, True), ('POST', p + '/send/update', {'unrelated': 1}, True)]
    if not established:
        rq += [('POST', p + '/send/update', upd, True), ('POST', p + '/send/route-refresh', {'afi': 1, 'safi': 1}, True),
               ('POST', p + '/send/bin_update', {'binary_data': 'ff' * 16 + '001304'}, True)]
    return rq


def diff_paths(a, b, path=''):
    """where two snapshots differ (short text)"""
    if type(a) is not type(b):
        return ['%s: %r -> %r' % (path, a, b)]
    if isinstance(a, dict):
        if (not a or not b) and a != b:
            return ['%s: %r -> %r' % (path, a, b)]
        out = []
        for k in sorted(set(a) | set(b), key=repr):
            if k not in a or k not in b:
                out.append('%s[%r]: %r -> %r' % (path, k, a.get(k, '<absent>'), b.get(k, '<absent>')))
            elif a[k] != b[k]:
                out += diff_paths(a[k], b[k], '%s[%r]' % (path, k))
        return out
    if isinstance(a, (list, tuple)) and len(a) == len(b):
        out = []
        for i, (x, y) in enumerate(zip(a, b)):
            if x != y:
                out += diff_paths(x, y, '%s[%d]' % (path, i))
        return out
    return [] if a == b else ['%s: %r -> %r' % (path, a, b)]


STATE_FIELDS = ['fsm state', 'hold_time', 'keep_alive_time', 'connect_retry_counter', 'allow_automatic_start',
                'tracked connection', 'timers', 'connections', 'established connection', 'peering status', 'clock',
                'local capabilities', 'remote capabilities']


class Rest(object):
    def __init__(self, remote_caps='real', script='first', reads=()):
        self.script, self.reads = script, tuple(reads)
        self.client = flask_app.test_client()
        self.drv = session.Driver()
        cred = '%s:%s' % (CONF.rest.username, CONF.rest.password)
        self.hdr = {'Authorization': 'Basic ' + base64.b64encode(cred.encode()).decode(),
                    'Content-Type': 'application/json'}
        self.captured = None
        self.effects = []        # requests that changed something they must not change
        self.sequence = []       # what was done, for the violation report
        self.reads_done = 0
        self.single_cache = {}
        self._spy()
        steps, self.peer_as4 = session_scripts()[script]
        for st in steps:
            if st[0] == 'ev':
                r = self.drv.apply(st[1])
                assert r[0], ('session script step not enabled', script, st[1][:2])
                self.sequence.append('%s%s' % (st[1][0], '' if len(st[1]) < 2 else
                                               ' ' + ' '.join(self.ev_text(x) for x in st[1][1:])))
            else:
                assert self.drv.peering.fsm.state == st[2], (script, st, self.drv.peering.fsm.state)
                if st[1] in self.reads:
                    self.do_reads(st[1])
        from yabgp.common import constants as C
        assert self.drv.exc == 0, 'exception in the session layer while the session was driven'
        assert self.drv.peering.fsm.state == C.ST_ESTABLISHED, 'peering did not reach Established'
        # the capabilities the REAL session recorded from the peer's OPEN; [set_caps] pins others for the
        # capability variants of the correspondence run only
        self.real_caps = copy.deepcopy(CONF.bgp.running_config['capability']['remote'])
        self.caps = 'real'
        if remote_caps != 'real':
            self.set_caps(remote_caps)

    @staticmethod
    def ev_text(x):
        if isinstance(x, (bytes, bytearray)):
            return {1: 'OPEN', 2: 'UPDATE', 3: 'NOTIFICATION', 4: 'KEEPALIVE'}.get(x[18] if len(x) > 18 else 0, x.hex())
        return str(x)

    def _spy(self):
        if not hasattr(api_utils, '_verif_orig_c2b'):
            api_utils._verif_orig_c2b = api_utils.construct_update_to_bin
        if not hasattr(api_utils, '_verif_orig_su'):
            api_utils._verif_orig_su = api_utils.send_update

        def spy(peer_ip, attr, nlri, withdraw):
            Rest.current.captured = copy.deepcopy(dict(attr))
            return api_utils._verif_orig_c2b(peer_ip, attr, nlri, withdraw)

        def spy_su(peer_ip, attr, nlri, withdraw):
            Rest.current.captured = copy.deepcopy(dict(attr))
            return api_utils._verif_orig_su(peer_ip, attr, nlri, withdraw)
        api_utils.construct_update_to_bin = spy
        api_utils.send_update = spy_su
        Rest.current = self

    def set_caps(self, which):
        """remote capability dictionary as get_peer_conf_and_state reports it"""
        rc = CONF.bgp.running_config['capability']
        if which == 'real':
            rc['remote'] = copy.deepcopy(self.real_caps)
        elif which == 'as4':
            rc['remote'] = {'afi_safi': [(1, 1)], 'route_refresh': True, 'four_bytes_as': True}
        elif which == 'as2':
            rc['remote'] = {'afi_safi': [(1, 1)], 'route_refresh': True, 'four_bytes_as': False}
        elif which == 'nokey':
            rc['remote'] = {'afi_safi': [(1, 1)], 'route_refresh': True}
        elif which == 'empty':
            rc['remote'] = {}
        self.caps = which

    def caps_coq(self):
        """the model's view of the remote capability dictionary the views consult right now"""
        d = CONF.bgp.running_config['capability']['remote']
        if not d:
            return 'CapEmpty'
        if 'four_bytes_as' not in d:
            return 'CapNoKey'
        return '(CapFba %s)' % ('true' if d['four_bytes_as'] else 'false')

    # -- the no-effect oracle ------------------------------------------------------------------
    def snapshot(self, full=True):
        """(configuration the REST layer shares with the session layer, abstract session state, length of
        the transport/handler log)"""
        session.Driver.current = self.drv
        rc = CONF.bgp.running_config
        conf = copy.deepcopy({k: v for k, v in rc.items() if k != 'factory'})
        conf['factory is the peering'] = rc.get('factory') is self.drv.peering
        if not full:
            return (conf,)
        return (conf, self.drv.state(), len(self.drv.sim.log))

    def describe_change(self, a, b):
        out = diff_paths(a[0], b[0], 'CONF.bgp.running_config')
        if len(a) > 1:
            for i, (x, y) in enumerate(zip(a[1], b[1])):
                if x != y:
                    out.append('session %s: %r -> %r' % (STATE_FIELDS[i], x, y))
            if a[2] != b[2]:
                out.append('transport/handler events: %r' % ([it[:2] for it in self.drv.sim.log[a[2]:b[2]]],))
        return '; '.join(out)[:600]

    def request(self, method, url, body=None, auth=True, must_not_change=True, full=True):
        """one REST request under the no-effect oracle.  returns the response"""
        Rest.current = self
        before = self.snapshot(full)
        hdr = dict(self.hdr)
        if not auth:
            del hdr['Authorization']
        kw = {'data': json.dumps(body)} if body is not None else {}
        r = self.client.open(url, method=method, headers=hdr, **kw)
        if must_not_change:
            after = self.snapshot(full)
            if after != before:
                self.effects.append({
                    'request': [method, url, body, 'with credentials' if auth else 'no credentials'],
                    'fsm': FSM_NAME.get(self.drv.peering.fsm.state), 'http': r.status_code,
                    'after': list(self.sequence), 'changed': self.describe_change(before, after)})
        return r

    def do_reads(self, point):
        est = self.drv.peering.fsm.state == 6
        for method, url, body, auth in read_requests(est):
            self.request(method, url, body, auth)
            self.reads_done += 1
        self.sequence.append('REST reads in %s (%s)' % (FSM_NAME.get(self.drv.peering.fsm.state), point))

    def post(self, attr, view='json_to_bin'):
        """returns (http status, json or None, attr dictionary the view handed to the encoder or None).
        json_to_bin sends nothing: the whole state must stay as it is; send/update must not touch the
        configuration (what it writes is C16's subject)"""
        Rest.current = self
        self.captured = None
        body = {'attr': dict({'1': 0, '2': [], '3': '10.0.0.1'}, **attr), 'nlri': ['10.0.0.0/8']}
        n0 = len(self.drv.sim.log)
        r = self.request('POST', '/v1/peer/%s/%s' % (PEER, 'json_to_bin' if view == 'json_to_bin' else 'send/update'),
                         body, True, True, full=(view == 'json_to_bin'))
        js = r.get_json(silent=True) if r.status_code == 200 else None
        self.written = [it[2] for it in self.drv.sim.log[n0:] if it[0] == 'write']
        self.last = (r.status_code, js, [w.hex() for w in self.written])
        return r.status_code, js, self.captured

    def session_input(self):
        return {'script': self.script, 'reads_in': list(self.reads), 'sequence': list(self.sequence)}


def attrs_of_update(msg):
    """independent little walker: UPDATE message octets -> {type: value octets}"""
    assert msg[:16] == b'\xff' * 16 and msg[18] == 2 and struct.unpack('!H', msg[16:18])[0] == len(msg)
    wl = struct.unpack('!H', msg[19:21])[0]
    p = 21 + wl
    al = struct.unpack('!H', msg[p:p + 2])[0]
    p += 2
    end = p + al
    out = {}
    while p < end:
        flags, ty = msg[p], msg[p + 1]
        if flags & 0x10:
            ln = struct.unpack('!H', msg[p + 2:p + 4])[0]
            p += 4
        else:
            ln = msg[p + 2]
            p += 3
        out[ty] = (flags, msg[p:p + ln])
        p += ln
    assert p == end
    return out


ATTR = {'ec': (16, 0xC0), 'com': (8, 0xC0), 'large': (32, 0xE0)}


def parse_real(fam, octets):
    from yabgp.message.attribute.extcommunity import ExtCommunity
    from yabgp.message.attribute.community import Community
    from yabgp.message.attribute.largecommunity import LargeCommunity
    return {'ec': ExtCommunity, 'com': Community, 'large': LargeCommunity}[fam].parse(octets)


def single_items(rest, text, view):
    """what the view's recombination makes of ONE posted text (cached), or None"""
    key = (view, text, rest.caps)
    if key not in rest.single_cache:
        st, js, cap = rest.post({'16': [text]}, view)
        rest.single_cache[key] = None if cap is None else cap.get(16)
    return rest.single_cache[key]


def check_attrs(rest, attrs, view='json_to_bin', elementwise=True):
    """the property on the implementation for ONE request that carries the attributes {family: RFC octets}.
    returns None or (stage, detail)"""
    texts = {}
    for fam in sorted(attrs):
        try:
            text = parse_real(fam, attrs[fam])
        except BaseException as e:
            return ('decode-raises', type(e).__name__)
        if not (isinstance(text, list) and text and all(isinstance(t, str) for t in text)):
            return ('decode-not-text', repr(text)[:80])
        texts[fam] = text
    shown = texts[list(texts)[0]] if len(texts) == 1 else texts
    neff = len(rest.effects)
    st, js, cap = rest.post({str(ATTR[fam][0]): t for fam, t in texts.items()}, view)
    if view == 'json_to_bin':
        if st != 200:
            return ('rest-refused', 'http %d text=%r' % (st, shown))
        if not isinstance(js, dict) or 'bin' not in js:
            return ('rest-refused', 'text=%r answer=%r' % (shown, js))
        msg = bytes.fromhex(js['bin'])
    else:
        if st != 200 or not isinstance(js, dict) or js.get('status') is not True or len(rest.written) != 1:
            return ('rest-refused', 'http %d text=%r answer=%r' % (st, shown, js))
        msg = rest.written[0]
    try:
        a = attrs_of_update(msg)
    except Exception:
        return ('bin-not-an-update', msg.hex())
    for fam in sorted(attrs):
        ty, flag = ATTR[fam]
        octets, text = attrs[fam], texts[fam]
        if ty not in a:
            return ('attribute-missing', msg.hex())
        fl, val = a[ty]
        if val != octets:
            if len(octets) > 24:
                w = len(octets) // len(text)
                bad = [i for i in range(len(text)) if val[i * w:(i + 1) * w] != octets[i * w:(i + 1) * w]]
                if bad and len(val) == len(octets):
                    i = bad[0]
                    return ('octets-differ', 'text=%r member %d (%r) of %d produced=%s expected=%s' % (
                        shown, i, text[i], len(text), val[i * w:(i + 1) * w].hex(), octets[i * w:(i + 1) * w].hex()))
            return ('octets-differ', 'text=%r produced=%s' % (shown, val.hex()))
        if fl != flag:
            return ('flags-differ', '%02x' % fl)
        try:
            again = parse_real(fam, val)
        except BaseException as e:
            return ('redecode-raises', type(e).__name__)
        if again != text:
            return ('text-differs', '%r vs %r' % (text, again))
    # no state carried from one member of attr[16] to the next: the items made of the list are the items
    # made of each member alone, in order
    if elementwise and 'ec' in texts and len(texts['ec']) > 1 and cap is not None:
        alone = [single_items(rest, t, view) for t in texts['ec']]
        if any(x is None for x in alone) or cap.get(16) != [it for x in alone for it in x]:
            return ('recombination-not-elementwise', 'text=%r list gives %r, members alone give %r'
                    % (texts['ec'], cap.get(16), alone))
    if len(rest.effects) > neff:
        e = rest.effects[-1]
        return ('request-changed-state', '%s %s answered %d changed: %s' % (e['request'][0], e['request'][1],
                                                                             e['http'], e['changed']))
    return None


def check_one(rest, fam, octets, view='json_to_bin'):
    return check_attrs(rest, {fam: octets}, view)


# known-finding classification: exactly this input class with exactly this behaviour
def classify(fam, kind, v, fail):
    stage = fail[0]
    if fam == 'ec' and kind in ('rt_as4', 'ro_as4') and v[0] < 65536 and stage == 'octets-differ':
        code = 0x0002 if kind == 'rt_as4' else 0x0003
        if fail[1].endswith('produced=' + (be(2, code) + be(2, v[0]) + be(4, v[1])).hex()):
            return 'C17-as4-format-small-as'
    return None


# ------------------------------------------------------------------------------------------
# lists with several members of the SAME kind and DIFFERENT values
# ------------------------------------------------------------------------------------------
def good_pools(values):
    pools = {}
    for k, v in values:
        if k in ('rt_as4', 'ro_as4') and v[0] < 65536:      # known finding C17-as4-format-small-as
            continue
        pools.setdefault(k, []).append(v)
    return pools


def neighbours(kind, rng):
    """three values of one kind that differ in ONE field only (a, a with the last field changed, a with the
    first field changed)"""
    fs = FIELDS[kind]
    if kind == 'traffic_action':
        return [(0, 1), (0, 0), (1, 1)]
    if len(fs) == 1:
        return [(x,) for x in rng.sample(fs[0], 3)]
    a0, c0 = rng.sample(fs[0], 2)
    a1, b1 = rng.sample(fs[1], 2)
    return [(a0, a1), (a0, b1), (c0, a1)]


def same_kind_shapes(a, b, c, x, y):
    """a, b, c: members of the kind under test (pairwise different); x, y: members of other kinds"""
    return [('pair', [a, b]), ('pair-reversed', [b, a]), ('triple', [a, b, c]), ('triple-reversed', [c, b, a]),
            ('pair-other-between', [a, x, b]), ('pair-reversed-other-between', [b, x, a]),
            ('triple-others-between', [a, x, b, y, c]), ('triple-reversed-others-between', [c, y, b, x, a])]


def gen_same_kind_lists(ctx, values, comms, larges):
    """[(family, kind under test, shape, members)]; members are (kind, value) for 'ec', values otherwise"""
    rng = ctx.rng
    pools = good_pools(values)
    nrand = 10 if ctx.thorough else 1
    out = []

    def other(k):
        ko = rng.choice([z for z in KIND_ORDER if z != k])
        return (ko, rng.choice(pools[ko]))
    for k in KIND_ORDER:
        pool = pools[k]
        assert len(set(pool)) >= 3, k
        triples = [(pool[0], pool[len(pool) // 2], pool[-1]), tuple(neighbours(k, rng))]
        triples += [tuple(rng.sample(pool, 3)) for _ in range(nrand)]
        if k == 'traffic_action':
            # the whole space: every ordered pair and every ordered triple of different flag combinations
            vs = sorted(set(pool))
            for p in itertools.permutations(vs, 2):
                out.append(('ec', k, 'pair', [(k, v) for v in p]))
                out.append(('ec', k, 'pair-other-between', [(k, p[0]), other(k), (k, p[1])]))
            for p in itertools.permutations(vs, 3):
                out.append(('ec', k, 'triple', [(k, v) for v in p]))
            triples = triples[:2]
        for t in triples:
            assert len(set(t)) == 3, (k, t)
            for shape, l in same_kind_shapes((k, t[0]), (k, t[1]), (k, t[2]), other(k), other(k)):
                out.append(('ec', k, shape, l))
    # the same text key, different wire formats and values, interleaved (route-target / route-origin)
    for key, ks in (('route-target', ['rt_as2', 'rt_ip4', 'rt_as4']), ('route-origin', ['ro_as2', 'ro_ip4', 'ro_as4'])):
        for _ in range(4 if ctx.thorough else 2):
            l = [(k, v) for k in ks for v in rng.sample(pools[k], 2)]
            rng.shuffle(l)
            out.append(('ec', key, 'mixed-formats', l))
            out.append(('ec', key, 'mixed-formats-reversed', l[::-1]))
    for _ in range(4 if ctx.thorough else 2):
        l = [(k, rng.choice(pools[k])) for k in ('rt_as2', 'ro_as2', 'rt_as4', 'ro_as4', 'rt_ip4', 'ro_ip4') * 2]
        out.append(('ec', 'route-target+route-origin', 'alternating', l))
    # every kind twice with different values in one attribute (at most 31 communities fit one length octet)
    for ks in (KIND_ORDER[:15], KIND_ORDER[3:]):
        l = []
        for k in ks:
            a, b = rng.sample(pools[k], 2)
            l += [(k, a), (k, b)]
        out.append(('ec', 'all', 'every-kind-twice-adjacent', l))
        l2 = l[0::2] + l[1::2]
        out.append(('ec', 'all', 'every-kind-twice-apart', l2))
    # communities: numeric and well-known values; large communities
    names = sorted(WELL_KNOWN_RFC & set(comms))
    nums = [c for c in comms if c not in names and c < 0xFFFF0000]
    for i in range(4 + nrand * 2):
        a, b, c = (names[:3] if i == 0 else nums[:3] if i == 1 else nums[-3:] if i == 2 else
                   rng.sample(names, 3) if i == 3 else rng.sample(comms, 3))
        x, y = (rng.sample(nums, 2) if i in (0, 3) else rng.sample(names, 2))
        for shape, l in same_kind_shapes(a, b, c, x, y):
            out.append(('com', 'community', shape, l))
    lb = [(1, 2, 3), (1, 2, 4), (2, 2, 3)]
    for i in range(3 + nrand * 2):
        a, b, c = (lb if i == 0 else [larges[0], larges[len(larges) // 2], larges[-1]] if i == 1
                   else rng.sample(larges, 3))
        x, y = rng.sample(larges, 2)
        if len({a, b, c, x, y}) < 5:
            continue
        for shape, l in same_kind_shapes(a, b, c, x, y):
            out.append(('large', 'large', shape, l))
    return out


def list_octets(fam, members):
    if fam == 'ec':
        return b''.join(ref_ec(k, v) for k, v in members)
    return b''.join((ref_community if fam == 'com' else ref_large)(v) for v in members)


def list_value(fam, members):
    return [[k, list(v)] for k, v in members] if fam == 'ec' else [list(v) if isinstance(v, tuple) else v
                                                                      for v in members]


def oracle_lists(ctx, rest, lists):
    """every same-kind list through BOTH views; the three attributes together in one request"""
    viol, n, shapes = [], 0, {}
    for fam, kind, shape, members in lists:
        octets = list_octets(fam, members)
        shapes[shape] = shapes.get(shape, 0) + 1
        for view in ('json_to_bin', 'send/update'):
            n += 1
            f = check_attrs(rest, {fam: octets}, view)
            if f:
                viol.append({'what': 'C17 list (%s, %s) of %d %s via %s: %s: %s'
                                     % (kind, shape, len(members), fam, view, f[0], f[1]),
                             'input': {'family': fam, 'kind': 'list', 'of': kind, 'shape': shape,
                                       'value': list_value(fam, members), 'octets': octets.hex(), 'view': view},
                             'stage': f[0], 'known': None})
    by = {}
    for fam, kind, shape, members in lists:
        by.setdefault(fam, []).append(list_octets(fam, members))
    rng = ctx.rng
    for i in range(60 if ctx.thorough else 12):
        attrs = {fam: rng.choice(by[fam]) for fam in ('ec', 'com', 'large')}
        if i % 4 == 3:
            del attrs[rng.choice(sorted(attrs))]
        view = ('json_to_bin', 'send/update')[i % 2]
        n += 1
        f = check_attrs(rest, attrs, view)
        if f:
            viol.append({'what': 'C17 attributes %s in one request via %s: %s: %s' % (sorted(attrs), view, f[0], f[1]),
                         'input': {'family': 'multi', 'attrs': {k: v.hex() for k, v in attrs.items()}, 'view': view},
                         'stage': f[0], 'known': None})
    return n, viol, shapes


def effect_violations(rest, limit=6):
    out = []
    for e in rest.effects[:limit]:
        out.append({'what': 'C17 REST request that must not change anything did: %s %s (%s, answered %d) with the '
                            'session in %s after [%s] changed %s'
                            % (e['request'][0], e['request'][1], e['request'][3], e['http'], e['fsm'],
                               '; '.join(e['after']), e['changed']),
                    'input': {'family': 'session', 'session': rest.session_input(), 'request': e['request'],
                              'fsm': e['fsm']},
                    'stage': 'request-changed-state', 'known': None})
    return out


# ------------------------------------------------------------------------------------------
# REST reads interleaved with the progress of a real session
# ------------------------------------------------------------------------------------------
def interleave_cases(ctx, values, comms, larges, lists):
    """the round-trip posts made after the session came up: [(family, octets, view, (kind, value) or None)]"""
    rng = ctx.rng
    pools = good_pools(values)
    per = 6 if ctx.thorough else 2
    cases = []
    for k in KIND_ORDER:
        pool = pools[k]
        vs = [pool[0], pool[-1]] + rng.sample(pool, min(len(pool), per))
        if k in ('ro_as2', 'ro_as4', 'rt_as4'):     # the values the views consult the peer's capabilities for
            vs += rng.sample(pool, min(len(pool), per + 2))
        for i, v in enumerate(dict.fromkeys(vs)):
            cases.append(('ec', ref_ec(k, v), ('json_to_bin', 'send/update')[i % 2], (k, v)))
            if i < 2:
                cases.append(('ec', ref_ec(k, v), ('send/update', 'json_to_bin')[i % 2], (k, v)))
    for i, c in enumerate(rng.sample(comms, 6) + sorted(WELL_KNOWN_RFC & set(comms))[:2]):
        cases.append(('com', ref_community(c), ('json_to_bin', 'send/update')[i % 2], None))
    for i, l in enumerate(rng.sample(larges, 6)):
        cases.append(('large', ref_large(l), ('json_to_bin', 'send/update')[i % 2], None))
    pick = [x for x in lists if x[1] in ('route-target', 'route-origin', 'route-target+route-origin', 'all')]
    pick += rng.sample(lists, min(len(lists), 40 if ctx.thorough else 10))
    for i, (fam, kind, shape, members) in enumerate(pick):
        cases.append((fam, list_octets(fam, members), ('json_to_bin', 'send/update')[i % 2], None))
    return cases


def session_dimension(ctx, values, comms, larges, lists):
    """for every session script: the same posts after the session WITHOUT reads, with reads in exactly one
    pre-Established state, and with reads in all of them.  Oracles: the property itself on every post (when
    the peer announced the 4-octet-AS capability); equal results with and without reads; no effect of a read."""
    cases = interleave_cases(ctx, values, comms, larges, lists)
    viol, n, stats = [], 0, {'sessions': 0, 'reads': 0, 'posts': 0, 'read_points': {}, 'scripts': []}
    for script in sorted(session_scripts(), key=lambda x: (x != 'first', x)):
        points = read_points(script)
        stats['scripts'].append(script)
        # quick tier: reads in exactly one state for the first session only; elsewhere in none / in all states
        single = [(p,) for p in points] if (ctx.thorough or script == 'first') else [(p,) for p in points[-1:]]
        plans = [()] + single + [tuple(points)]
        base = None
        for plan in plans:
            rest = Rest(script=script, reads=plan)
            if plan:
                rest.do_reads('established')
            stats['sessions'] += 1
            stats['reads'] += rest.reads_done
            for p in plan:
                stats['read_points'][p] = stats['read_points'].get(p, 0) + 1
            res, reported = [], 0
            for fam, octets, view, kv in cases:
                n += 1
                f = check_attrs(rest, {fam: octets}, view, elementwise=False)
                res.append((f, rest.last))
                if f and rest.peer_as4 and reported < 4:
                    reported += 1
                    hint = ''
                    if rest.effects:
                        e = rest.effects[0]
                        hint = '  [before that, %s %s served in %s changed %s]' % (e['request'][0], e['request'][1],
                                                                                  e['fsm'], e['changed'])
                    viol.append({'what': 'C17 %s %s via %s after the session [%s]: %s: %s%s'
                                         % (fam, octets.hex() if len(octets) <= 24 else 'list ' + octets.hex(), view,
                                            '; '.join(rest.sequence), f[0], f[1], hint),
                                 'input': {'family': fam, 'octets': octets.hex(), 'view': view,
                                           'session': rest.session_input()},
                                 'stage': f[0], 'known': classify(fam, kv[0], kv[1], f) if kv else None})
            stats['posts'] += len(cases)
            if base is None:
                base = res
            else:
                differs = [i for i in range(len(cases)) if res[i] != base[i]]
                for i in differs[:(0 if reported else 3)]:
                    fam, octets, view, kv = cases[i]
                    viol.append({'what': 'C17 REST reads while the session came up change a later answer: %s %s via %s '
                                         'after [%s] -> %r; same session without the reads -> %r'
                                         % (fam, octets.hex(), view, '; '.join(rest.sequence), res[i], base[i]),
                                 'input': {'family': fam, 'octets': octets.hex(), 'view': view,
                                           'session': rest.session_input(), 'expect_equal_to_session_without_reads': True},
                                 'stage': 'reads-change-result', 'known': None})
            viol += effect_violations(rest, 3)
    stats['cases_per_session'] = len(cases)
    return n, viol, stats


def oracle(ctx, rest, values, comms, larges):
    viol, n, per_kind = [], 0, {}
    rest.do_reads('established')
    for kind, v in values:
        octets = ref_ec(kind, v)
        n += 1
        if n % 250 == 0:
            rest.do_reads('established')
        per_kind[kind] = per_kind.get(kind, 0) + 1
        f = check_one(rest, 'ec', octets)
        if f:
            viol.append({'what': 'C17 %s value %r (octets %s): %s: %s' % (kind, v, octets.hex(), f[0], f[1]),
                         'input': {'family': 'ec', 'kind': kind, 'value': list(v), 'octets': octets.hex()},
                         'stage': f[0], 'known': classify('ec', kind, v, f)})
    for c in comms:
        n += 1
        f = check_one(rest, 'com', ref_community(c))
        if f:
            viol.append({'what': 'C17 community 0x%08X: %s: %s' % (c, f[0], f[1]),
                         'input': {'family': 'com', 'value': c, 'octets': ref_community(c).hex()},
                         'stage': f[0], 'known': None})
    for l in larges:
        n += 1
        f = check_one(rest, 'large', ref_large(l))
        if f:
            viol.append({'what': 'C17 large community %r: %s: %s' % (l, f[0], f[1]),
                         'input': {'family': 'large', 'value': list(l), 'octets': ref_large(l).hex()},
                         'stage': f[0], 'known': None})
    # several communities in one attribute (order kept, octets concatenated)
    rng = ctx.rng
    good = [(k, v) for k, v in values if not (k in ('rt_as4', 'ro_as4') and v[0] < 65536)]
    for _ in range(40 if ctx.thorough else 8):
        pick = rng.sample(good, rng.randrange(2, 20))
        octets = b''.join(ref_ec(k, v) for k, v in pick)
        n += 1
        f = check_one(rest, 'ec', octets)
        if f:
            viol.append({'what': 'C17 list of %d extended communities: %s: %s' % (len(pick), f[0], f[1]),
                         'input': {'family': 'ec', 'kind': 'list', 'value': [[k, list(v)] for k, v in pick],
                                   'octets': octets.hex()}, 'stage': f[0], 'known': None})
    for fam, pool, ref, width in (('com', comms, ref_community, 4), ('large', larges, ref_large, 12)):
        for _ in range(20 if ctx.thorough else 4):
            pick = rng.sample(pool, rng.randrange(2, 255 // width))
            octets = b''.join(ref(x) for x in pick)
            n += 1
            f = check_one(rest, fam, octets)
            if f:
                viol.append({'what': 'C17 list of %d %s: %s: %s' % (len(pick), fam, f[0], f[1]),
                             'input': {'family': fam, 'kind': 'list', 'octets': octets.hex()},
                             'stage': f[0], 'known': None})
    # the other view (send/update) shares the translation: one boundary value per kind through it
    first = {}
    for k, v in good:
        first.setdefault(k, []).append(v)
    for k in KIND_ORDER:
        for v in (first.get(k) or [])[:3] + (first.get(k) or [])[-2:]:
            n += 1
            f = check_one(rest, 'ec', ref_ec(k, v), view='send/update')
            if f:
                viol.append({'what': 'C17 %s value %r via send/update: %s: %s' % (k, v, f[0], f[1]),
                             'input': {'family': 'ec', 'kind': k, 'value': list(v), 'octets': ref_ec(k, v).hex(),
                                       'view': 'send/update'}, 'stage': f[0], 'known': classify('ec', k, v, f)})
    rest.do_reads('established')
    return n, viol, per_kind


def run(ctx):
    values = gen_values(ctx)
    comms = gen_communities(ctx)
    larges = gen_large(ctx)
    lists = gen_same_kind_lists(ctx, values, comms, larges)
    # sessions with interleaved reads first: each of them replaces the world (reactor, CONF.bgp.running_config)
    n_se, viol_se, sess = session_dimension(ctx, values, comms, larges, lists)
    rest = Rest()
    n_or, viol, per_kind = oracle(ctx, rest, values, comms, larges)
    n_li, viol_li, shapes = oracle_lists(ctx, rest, lists)
    mism, ncorr, extra2 = correspondence(ctx, rest, values, comms, larges, lists)
    # property failures with their concrete input first, then the requests that had an effect
    viol = viol + viol_li + viol_se + effect_violations(rest)
    sess['reads_in_established_during_the_sweep'] = rest.reads_done
    by_kind = {}
    for fam, kind, shape, members in lists:
        by_kind[kind] = by_kind.get(kind, 0) + 1
    extra = {'oracle_cases': n_or, 'correspondence_cases': ncorr, 'per_kind': per_kind,
             'communities': len(comms), 'large_communities': len(larges),
             'same_kind_lists': {'lists': len(lists), 'posts': n_li, 'by_shape': shapes, 'by_kind': by_kind,
                                 'views': ['json_to_bin', 'send/update']},
             'session_interleaving': sess,
             'remote_capabilities_recorded_by_the_session': repr(rest.real_caps)}
    extra.update(extra2)
    return {'evaluations': n_or + n_li + n_se + ncorr, 'distinct': n_or + n_li,
            'rule': 'boundary products + seeded random field values for each of the 18 wire formats of the 14 '
                    'kinds, all well-known communities and their neighbours, random communities, large '
                    'communities with boundary/random 32-bit fields; random mixed lists; for every kind lists of 2 '
                    'and 3 different values of that kind (both orders, other kinds in between, values differing in '
                    'one field, all ordered pairs/triples of traffic-action flags) through both views; the three '
                    'attributes in one request; the same posts after real sessions with REST reads interleaved in '
                    'every pre-Established state; non-trivial = the RFC octets decode to text (distinct by octets)',
            'samples': [[k, list(v), ref_ec(k, v).hex()] for k, v in values[:3]] + [['community', comms[0]]] +
                       [[fam, kind, shape, list_octets(fam, members).hex()] for fam, kind, shape, members in lists[:2]],
            'mismatches': mism, 'violations': viol, 'extra': extra}


# ------------------------------------------------------------------------------------------
# correspondence: model (evaluated in Coq) against the implementation
# ------------------------------------------------------------------------------------------
def T(s):
    """text -> SB of its character codes (ASCII only in this check)"""
    return Bytes(s.encode('latin-1'))


def zz(n):
    return [1 if n < 0 else 0, abs(n)]


def coq_str(s):
    return coq_bytes(s.encode('latin-1'))


def coq_z(n):
    return '(%d)%%Z' % n


def canon_item(it):
    """one [code, value...] item of the view -> structure mirroring YExtCom.sx_item"""
    code = it[0]
    rest = it[1:]
    if len(rest) == 1 and isinstance(rest[0], str):
        return [0, code, T(rest[0])]
    if len(rest) == 1 and isinstance(rest[0], int) and not isinstance(rest[0], bool):
        return [1, code, zz(rest[0])]
    if len(rest) == 2 and isinstance(rest[0], str) and isinstance(rest[1], int):
        return [2, code, T(rest[0]), zz(rest[1])]
    if len(rest) == 2 and all(isinstance(x, int) for x in rest):
        return [3, code, zz(rest[0]), zz(rest[1])]
    if len(rest) == 1 and isinstance(rest[0], dict) and set(rest[0]) <= {'s', 't'}:
        return [4, code, [zz(rest[0]['s'])] if 's' in rest[0] else [], [zz(rest[0]['t'])] if 't' in rest[0] else []]
    raise ValueError('item shape outside the model: %r' % (it,))


def coq_item(it):
    c = canon_item(it)
    if c[0] == 0:
        return '(ItS %d %s)' % (c[1], coq_str(it[1]))
    if c[0] == 1:
        return '(ItI %d %s)' % (c[1], coq_z(it[1]))
    if c[0] == 2:
        return '(ItSI %d %s %s)' % (c[1], coq_str(it[1]), coq_z(it[2]))
    if c[0] == 3:
        return '(ItII %d %s %s)' % (c[1], coq_z(it[1]), coq_z(it[2]))
    o = lambda k: '(Some %s)' % coq_z(it[1][k]) if k in it[1] else 'None'   # noqa: E731
    return '(ItD %d %s %s)' % (c[1], o('s'), o('t'))


REFUSALS = {'please check peer state': 1, 'peer not support as num of greater than 65535': 2}


def impl_rest(rest, caps, texts, view='json_to_bin'):
    """what the view's recombination produced: [0, items] | [1, refusal] | [2] (exception)"""
    if rest.caps != caps:
        rest.set_caps(caps)
    st, js, cap = rest.post({'16': texts}, view)
    if cap is not None:
        return [0, [canon_item(i) for i in cap[16]]], cap[16]
    if st == 200 and isinstance(js, dict) and js.get('status') is False:
        code = js.get('code', '')
        if code in REFUSALS:
            return [1, REFUSALS[code]], None
        if code.startswith('unexpected extended community'):
            return [1, 3], None
        return [9, T(code)], None
    return [2], None


def canon_call(fn, render):
    from yabgp.common import exception as excep
    try:
        v = fn()
    except excep.UpdateMessageError as e:
        return [1, e.sub_error]
    except Exception:
        return [2]
    return [0, render(v)]


def render_texts(v):
    import ast
    out = []
    for t in v:
        if isinstance(t, str):
            out.append([0, T(t)])
        else:
            out.append([1, Bytes(ast.literal_eval(t[1]))])
    return out


NUM_MUT = ['+5', '-5', '6_5', '_5', '5_', '007', '', ' 7', '7 ', '\t7\n', '\x1f7', '7\x1c', '0x10', '65535', '65536',
           '4294967295', '4294967296', '70000', '1.5', 'x', '4_294_967_295', '9007199254740992', '16777217',
           '340282346638528859811704183484516925440', '340282366920938463463374607431768211456', '0']
IP_MUT = ['1.2.3.4', '01.2.3.4', '1.2.3', '1.2.3.256', '1.2.3.4.5', 'a.b.c.d', '1..2.3', '0.0.0.0', '255.255.255.255',
          '1.2.3.4 ', '.', '1.2.3.04', '10.0.0.1']
MAC_MUT = ['00-1b-aa-bb-cc-dd', '00:1B:AA:BB:CC:DD', '00-1B', '0x1B-0-0-0-0-0', '100-0-0-0-0-0', '0-1-2-3-4-5',
           ' 0A-0B -0C-0D-0E-0F', 'GG-00-00-00-00-00', '', '-', '00-1B-AA-BB-CC-DD-EE', '+1-2-3-4-5-6', '-1-2']
KEYS = ['route-target', 'route-origin', 'dmzlink-bw', 'redirect-nexthop', 'redirect-vrf', 'traffic-action',
        'esi-label', 'mac-mobility', 'traffic-marking-dscp', 'traffic-rate', 'color', 'color-00', 'color-01',
        'color-10', 'color-11', 'encapsulation', 'es-import', 'router-mac', 'traffic-marking', 'foo', '',
        'route_target', 'Route-Target', 'COLOR', ' es-import ', 'esi-label ', '\tmac-mobility']


def gen_malformed(ctx, good_texts):
    """texts around the grammar the view accepts: mutated decoder output and hand-made templates"""
    rng = ctx.rng
    out = []
    n = 1500 if ctx.thorough else 260
    for _ in range(n):
        t = rng.choice(good_texts)
        key, _, val = t.partition(':')
        parts = val.split(':')
        op = rng.randrange(12)
        if op == 0:
            t = rng.choice([key.upper(), key.title(), ' ' + key, key + ' ', '\t' + key + '\x1f']) + ':' + val
        elif op == 1:
            parts[rng.randrange(len(parts))] = rng.choice(NUM_MUT)
            t = key + ':' + ':'.join(parts)
        elif op == 2:
            t = key + ':' + ':'.join(parts[:-1])
        elif op == 3:
            t = t + ':' + rng.choice(NUM_MUT)
        elif op == 4:
            u = rng.choice(good_texts)
            t = t + ',' + rng.choice(['', ' ']) + u.partition(':')[2]
        elif op == 5:
            t = key + ':' + rng.choice([' ', '']) + val + rng.choice([' ', '\n', ''])
        elif op == 6:
            i = rng.randrange(len(parts))
            parts[i] = rng.choice([' ', '']) + parts[i] + rng.choice([' ', '\x1e', ''])
            t = key + ':' + ':'.join(parts)
        elif op == 7:
            t = rng.choice(KEYS) + ':' + val
        elif op == 8:
            parts[0] = rng.choice(IP_MUT)
            t = key + ':' + ':'.join(parts)
        elif op == 9:
            t = key + ':' + rng.choice(MAC_MUT)
        elif op == 10:
            t = rng.choice(KEYS) + ':' + ':'.join(rng.choice(NUM_MUT) for _ in range(rng.randrange(0, 4)))
        else:
            t = rng.choice([key, key + ':', ':' + val, '', ':', val, t.replace(':', ';'), t.replace('-', '_')])
        out.append(t)
    out += ['traffic-action:S:1,T:1', 'traffic-action:s:1', 'traffic-action:T:0', 'traffic-action:t:1,s:0,x:5',
            'traffic-action:s', 'traffic-action:s:x', 'traffic-action:S :1', 'traffic-action: s:1 , t:1 ',
            'traffic-action:s:2,t:1', 'traffic-action:s:200,t:1', 'traffic-action:s:1,s:0', 'traffic-action:',
            'traffic-action:s:-1,t:3',
            'color-00:5', 'color-01:5,6', 'color-10:4294967295', 'color-11:4294967296', 'color:1,2,3',
            'traffic-marking-dscp:63', 'traffic-marking-dscp:64', 'traffic-marking-dscp:255',
            'traffic-marking-dscp:256', 'traffic-marking-dscp:1,2', 'traffic-marking-dscp:x',
            'traffic-rate:65000:1000', 'traffic-rate:65000:-1000', 'traffic-rate:65000:16777217',
            'traffic-rate:65000:16777219', 'traffic-rate:65000:33554434', 'traffic-rate:65000:33554438',
            'traffic-rate:1:340282346638528859811704183484516925440',
            'traffic-rate:1:340282356779733661637539395458142568447',
            'traffic-rate:1:340282356779733661637539395458142568448', 'traffic-rate:1:2,3:4',
            'esi-label:1:1000', 'esi-label:256:1', 'esi-label:1:1048576', 'esi-label:1:268435455',
            'esi-label:1:268435456', 'esi-label:-1:5', 'esi-label:1:-5', 'esi-label:1', 'esi-label:1:2:3',
            'mac-mobility:1:2:3', 'mac-mobility:1: 2', 'mac-mobility: 1 :2', 'mac-mobility:256:1',
            'mac-mobility:1:4294967296',
            'route-target:65535:1', 'route-target:65536:1', 'route-target:65536:65536', 'route-target:1.1.1.1:65536',
            'route-target:1:1,65536:2,1.1.1.1:3', 'route-target:4294967296:1', 'route-target:-1:1',
            'route-origin:65535:1', 'route-origin:65536:1', 'route-origin:x:1', 'route-origin:1.1.1.1:1,x:1',
            'route-target:1.x:1', 'route-target:1:1.1.1.1', 'route-target:65536:1,x', 'route-target:x,65536:1',
            'redirect-nexthop:1.2.3.4:1', 'redirect-nexthop:1.2.3.4', 'redirect-nexthop:1.2.3.4:65536',
            'redirect-nexthop: 1.2.3.4:1', 'redirect-nexthop:1.2.3.4 :1', 'redirect-nexthop:1.2.3.4: 1 ',
            'redirect-nexthop:1.2.3.4:1:2', 'redirect-vrf:1:2', 'redirect-vrf: 1:2 ', 'redirect-vrf:1:2,3:4',
            'redirect-vrf:65536:2', 'dmzlink-bw:1:2,3:4', 'dmzlink-bw:1', 'encapsulation:8,9', 'encapsulation:65536']
    seen, res = set(), []
    for t in out:
        if t not in seen and all(ord(ch) < 128 for ch in t):
            seen.add(t)
            res.append(t)
    return res


def correspondence(ctx, rest, values, comms, larges, lists=()):
    from yabgp.message.attribute.extcommunity import ExtCommunity
    from yabgp.message.attribute.community import Community
    from yabgp.message.attribute.largecommunity import LargeCommunity
    from yabgp.common import constants as C
    rng = ctx.rng
    cases = []      # (coq expression, canonical implementation value, description)

    # (F) the hand-copied tables of the model against the live dictionaries
    for k, v in C.BGP_EXT_COM_STR_DICT.items():
        cases.append(('sx_opt SB (assoc_n %d ext_com_str_dict)' % k, [T(v)], ('BGP_EXT_COM_STR_DICT', k)))
    cases.append(('sx_nat (length ext_com_str_dict)', len(C.BGP_EXT_COM_STR_DICT), ('len BGP_EXT_COM_STR_DICT',)))
    for k, v in C.BGP_EXT_COM_DICT.items():
        cases.append(('sx_opt SN (assoc_s %s ext_com_dict)' % coq_str(k), [v], ('BGP_EXT_COM_DICT', k)))
    cases.append(('sx_nat (length ext_com_dict)', len(C.BGP_EXT_COM_DICT), ('len BGP_EXT_COM_DICT',)))
    for k, v in C.BGP_EXT_COM_DICT_1.items():
        cases.append(('sx_opt SN (assoc_s %s ext_com_dict_1)' % coq_str(k), [v], ('BGP_EXT_COM_DICT_1', k)))
    cases.append(('sx_nat (length ext_com_dict_1)', len(C.BGP_EXT_COM_DICT_1), ('len BGP_EXT_COM_DICT_1',)))
    for k, v in C.WELL_KNOW_COMMUNITY_INT_2_STR.items():
        cases.append(('sx_opt SB (assoc_n %d well_known)' % k, [T(v)], ('WELL_KNOW_COMMUNITY_INT_2_STR', k)))
    cases.append(('sx_nat (length well_known)', len(C.WELL_KNOW_COMMUNITY_INT_2_STR), ('len WELL_KNOW',)))
    ntab = len(cases)

    # (A) ExtCommunity.parse
    octs = [ref_ec(k, v) for k, v in values]
    codes = sorted({KINDS[k][0] for k in KINDS})
    for _ in range(1500 if ctx.thorough else 300):      # any value octets under a known type
        octs.append(be(2, rng.choice(codes)) + bytes(rng.choice([0, 0, 1, 127, 128, 255, rng.randrange(256)])
                                                     for _ in range(6)))
    for w in (0x7F800000, 0xFF800000, 0x7FC00000, 0x7F800001, 0x80000000, 0x00000001, 0x007FFFFF, 0x00800000,
              0x3F000000, 0x3F800000, 0xBF800000, 0x3FC00000, 0x4B7FFFFF, 0x4B800000, 0x7F7FFFFF, 0xFF7FFFFF,
              0x4AFFFFFE, 0x4AFFFFFF, 0xCB000001):
        octs.append(be(2, 0x8006) + be(2, rng.randrange(65536)) + be(4, w))
    for _ in range(200 if ctx.thorough else 40):
        octs.append(bytes(rng.randrange(256) for _ in range(8)))          # mostly unknown types
    for c in (0x0306, 0x030d, 0x4301, 0x0000, 0x030b0000 >> 16, 0xFFFF):
        octs.append(be(2, c) + bytes(rng.randrange(256) for _ in range(6)))
    for _ in range(60 if ctx.thorough else 15):
        octs.append(b''.join(rng.choice(octs[:len(values)]) for _ in range(rng.randrange(0, 6))))
    for ln in (1, 7, 9, 12, 15):
        octs.append(bytes(rng.randrange(256) for _ in range(ln)))
    ec_lists = [list_octets(fam, members) for fam, kind, shape, members in lists if fam == 'ec']
    octs += ec_lists                                    # same-kind lists: the decoder side
    good_texts = []
    for o in octs:
        r = canon_call(lambda o=o: ExtCommunity.parse(o), render_texts)
        cases.append(('sx_pres sx_texts (ec_parse %s)' % coq_bytes(o), r, ('ExtCommunity.parse', o.hex())))
        if r[0] == 0 and len(r[1]) == 1 and r[1][0][0] == 0:
            good_texts.append(bytes(r[1][0][1]).decode('latin-1'))
    good_texts = sorted(set(good_texts))

    # (B) the view's recombination; (C) ExtCommunity.construct on every item list it produced
    # 'real' = the remote capabilities the session recorded from the peer's OPEN (4-octet AS announced)
    posts = [('real', [t], 'json_to_bin') for t in good_texts]
    mal = gen_malformed(ctx, good_texts)
    for t in mal:
        posts.append(('real', [t], 'json_to_bin'))
    # same-kind lists through both views: [rest_ec] maps over the members and carries nothing along
    for i, o in enumerate(ec_lists):
        texts = canon_call(lambda o=o: ExtCommunity.parse(o), lambda v: v)
        if texts[0] == 0 and all(isinstance(t, str) for t in texts[1]):
            posts.append(('real', list(texts[1]), 'json_to_bin'))
            if ctx.thorough or i % 3 == 0 or 'traffic-action' in ' '.join(texts[1]):
                posts.append(('real', list(texts[1]), 'send/update'))
    for t in rng.sample(good_texts, 150 if ctx.thorough else 30) + rng.sample(mal, 60 if ctx.thorough else 20):
        posts.append(('real', [t], 'send/update'))
    for capname in ('as2', 'nokey', 'empty'):
        pool = [t for t in good_texts + mal if t.lower().lstrip().startswith(('route-target', 'route-origin'))]
        for t in rng.sample(pool, min(len(pool), 400 if ctx.thorough else 70)):
            posts.append((capname, [t], 'json_to_bin'))
        for t in rng.sample(good_texts, 10):
            posts.append((capname, [t], 'json_to_bin'))
    for _ in range(60 if ctx.thorough else 12):
        posts.append((rng.choice(['real', 'as4', 'as2', 'empty']),
                      [rng.choice(good_texts if rng.random() < 0.8 else mal) for _ in range(rng.randrange(0, 6))],
                      rng.choice(['json_to_bin', 'send/update'])))
    item_lists = []
    nviews = {}
    for capname, texts, view in posts:
        r, items = impl_rest(rest, capname, texts, view)
        nviews[view] = nviews.get(view, 0) + 1
        cases.append(('sx_rres sx_items (rest_ec %s [%s])' % (rest.caps_coq(), '; '.join(coq_str(t) for t in texts)),
                      r, ('rest recombination', capname, texts, view)))
        if items:
            item_lists.append(items)
    rest.set_caps('real')
    seen = set()
    for items in item_lists:
        key = repr(items)
        if key in seen:
            continue
        seen.add(key)
        r = canon_call(lambda items=items: ExtCommunity.construct(items), lambda v: [] if v is None else [Bytes(v)])
        cases.append(('sx_pres sx_obytes (ec_construct [%s])' % '; '.join(coq_item(i) for i in items), r,
                      ('ExtCommunity.construct', items)))
    cases.append(('sx_pres sx_obytes (ec_construct [])',
                  canon_call(lambda: ExtCommunity.construct([]), lambda v: [] if v is None else [Bytes(v)]),
                  ('ExtCommunity.construct', [])))
    cases.append(('sx_pres sx_obytes (ec_construct [ItS 774 [49]])',
                  canon_call(lambda: ExtCommunity.construct([[774, '1']]), lambda v: [] if v is None else [Bytes(v)]),
                  ('ExtCommunity.construct', [[774, '1']])))
    big = [[2, '1:%d' % i] for i in range(32)]
    for items in (big, big[:31]):
        cases.append(('sx_pres sx_obytes (ec_construct [%s])' % '; '.join(coq_item(i) for i in items),
                      canon_call(lambda items=items: ExtCommunity.construct(items),
                                 lambda v: [] if v is None else [Bytes(v)]), ('ExtCommunity.construct', len(items))))

    # (D) Community, (E) LargeCommunity
    coct = [ref_community(c) for c in comms]
    coct += [b''.join(ref_community(rng.choice(comms)) for _ in range(rng.randrange(0, 5))) for _ in range(20)]
    coct += [bytes(rng.randrange(256) for _ in range(ln)) for ln in (1, 2, 3, 5, 6, 7, 9, 10)]
    coct += [list_octets(fam, members) for fam, kind, shape, members in lists if fam == 'com']
    ctexts = []
    for o in coct:
        r = canon_call(lambda o=o: Community.parse(o), lambda v: [T(t) for t in v])
        cases.append(('sx_pres sx_strs (com_parse %s)' % coq_bytes(o), r, ('Community.parse', o.hex())))
        if r[0] == 0:
            ctexts += [bytes(t).decode('latin-1') for t in r[1]]
    ctexts = sorted(set(ctexts))
    cmal = ['no_export', 'No_Export', 'NO_EXPORT ', 'route_filter_v4', 'ROUTE_FILTER_V4', 'ROUTE_FILTER_v4',
            'route_filter_translated_V6', 'blackhole', '1:2:3', '65536:0', '0:65536', '-1:65536', '65535:65536',
            '1', '', ':', '1:', ':1', 'a:b', ' 1 : 2 ', '+1:+2', '1_0:2', '65535:65535', '4294967295:0', '0:4294967295',
            '0:4294967296', 'NOPEER:1', '0x1:1', '1;2', 'PLANNED_SHUT', 'planned_shut', 'accept_own']
    clists = [[t] for t in ctexts + cmal]
    clists += [[rng.choice(ctexts + cmal) for _ in range(rng.randrange(0, 6))] for _ in range(40)]
    clists += [['1:%d' % i for i in range(n)] for n in (63, 64)]
    clists += [Community.parse(list_octets(fam, members)) for fam, kind, shape, members in lists if fam == 'com']
    for l in clists:
        r = canon_call(lambda l=l: Community.construct(l), Bytes)
        cases.append(('sx_pres SB (com_construct [%s])' % '; '.join(coq_str(t) for t in l), r,
                      ('Community.construct', l if len(l) < 8 else len(l))))
    loct = [ref_large(l) for l in larges]
    loct += [b''.join(ref_large(rng.choice(larges)) for _ in range(rng.randrange(0, 4))) for _ in range(20)]
    loct += [bytes(rng.randrange(256) for _ in range(ln)) for ln in (1, 4, 8, 11, 13, 16, 20, 23)]
    loct += [list_octets(fam, members) for fam, kind, shape, members in lists if fam == 'large']
    ltexts = []
    for o in loct:
        r = canon_call(lambda o=o: LargeCommunity.parse(o), lambda v: [T(t) for t in v])
        cases.append(('sx_pres sx_strs (large_parse %s)' % coq_bytes(o), r, ('LargeCommunity.parse', o.hex())))
        if r[0] == 0:
            ltexts += [bytes(t).decode('latin-1') for t in r[1]]
    ltexts = sorted(set(ltexts))
    lmal = ['1:2', '1', '', '1:2:3:4', '-1:2:3', '1:2:4294967296', '1:2:4294967295', ' 1 : 2 : 3 ', 'a:b:c', '1::3',
            '+1:2:3', '1_0:2:3', '-2147483648:1:1', '1:2:3,4:5:6', '0x1:2:3']
    llists = [[t] for t in ltexts + lmal]
    llists += [[rng.choice(ltexts + lmal) for _ in range(rng.randrange(0, 5))] for _ in range(30)]
    llists += [['1:2:%d' % i for i in range(n)] for n in (21, 22)]
    llists += [LargeCommunity.parse(list_octets(fam, members)) for fam, kind, shape, members in lists if fam == 'large']
    for l in llists:
        r = canon_call(lambda l=l: LargeCommunity.construct(l), Bytes)
        cases.append(('sx_pres SB (large_construct [%s])' % '; '.join(coq_str(t) for t in l), r,
                      ('LargeCommunity.construct', l if len(l) < 8 else len(l))))

    kinds = {}
    for c in cases:
        kinds[c[2][0]] = kinds.get(c[2][0], 0) + 1
    extra = {'correspondence_by_function': kinds, 'table_entries_compared': ntab,
             'malformed_texts': len(mal), 'decoded_texts': len(good_texts), 'recombination_posts_by_view': nviews,
             'same_kind_lists_in_correspondence': len(ec_lists)}
    if not ctx.coq_ok:
        return [], len(cases), extra
    per = 200
    shards = []
    for i in range(0, len(cases), per):
        body = ';\n'.join('(%s, %s)' % (c[0], coq_sx(c[1])) for c in cases[i:i + per])
        shards.append('Definition cases : list (sx * sx) := [\n%s\n].\nEval vm_compute in (mismatches cases).\n' % body)
    mism = []
    for k, (rc, out) in enumerate(common.coq_eval_shards(ctx.prop, shards, imports=IMPORTS)):
        idx = common.parse_nats(out)
        if rc != 0 or idx is None:
            mism.append({'what': 'case file %d does not evaluate: %s' % (k, common.first_error(out))})
            continue
        for i in idx:
            c = cases[k * per + i]
            mism.append({'what': 'model and implementation differ on %r' % (c[2],), 'input': c[2],
                         'impl': c[1], 'model_expr': c[0][:2000]})
    return mism, len(cases), extra


def replay(ctx, obj):
    v = obj.get('violation', obj)
    inp = v.get('input', v)
    se = inp.get('session') or {}
    rest = Rest(script=se.get('script', 'first'), reads=se.get('reads_in', ()))
    if se:
        print('session: ' + '; '.join(rest.sequence))
    found = 0
    if inp['family'] == 'session':
        rq = inp['request']
        rest.request(rq[0], rq[1], rq[2], rq[3] == 'with credentials')
    else:
        if inp['family'] == 'multi':
            attrs = {k: bytes.fromhex(h) for k, h in inp['attrs'].items()}
        else:
            attrs = {inp['family']: bytes.fromhex(inp['octets'])}
        view = inp.get('view', 'json_to_bin')
        f = check_attrs(rest, attrs, view)
        print('replay %s via %s -> %s' % ({k: o.hex() for k, o in attrs.items()}, view, f))
        found += 1 if f else 0
        if inp.get('expect_equal_to_session_without_reads'):
            got = rest.last
            plain = Rest(script=se.get('script', 'first'), reads=())
            check_attrs(plain, attrs, view)
            print('with the reads   : %r\nwithout the reads: %r' % (got, plain.last))
            found += 1 if got != plain.last else 0
    for e in rest.effects:
        found += 1
        print('request with an effect: %s %s in %s changed %s' % (e['request'][0], e['request'][1], e['fsm'], e['changed']))
    return 1 if found else 0
