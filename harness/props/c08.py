"""C08 — every message the agent constructs is structurally valid, or construction fails.

The oracle is the Coq walker `valid_msg_with` of coq/spec/Walker.v (written from the RFCs, shares
nothing with yabgp's decoders or with coq/model).  This module only
  * generates constructor inputs (dictionary shapes of the unit tests; boundary values),
  * calls the REAL constructors (Update.construct / Open.construct / Notification / KeepAlive /
    RouteRefresh), and
  * prints every byte string that came back WITHOUT an exception as a Coq term; Coq computes the
    indices of the messages the walker rejects (`Eval vm_compute in (invalid_indices cases)`).
An exception is the property's "fails with an error" clause (counted, not a violation); a byte
string the walker rejects is a violation, with (kind, input) as the replay.

There is no Python transcription of the walker.
"""
import json
import os
import struct

import env  # noqa: F401
import common
from session import coq_bytes

COQ_TARGETS = ['props/C08.vo']
TRUSTED = ['coq/spec/Walker.v is the definition of "structurally valid" (reviewed against RFC 4271, 4760, '
           '5492, 6793, 7911, 4360, 8092, 4456, 8277, 4364, 7432, 9136, 8955, 8956, 9012, 9830, 6514)',
           'harness/props/c08.py prints the implementation\'s octets as Coq lists (coq_bytes)']
ASSUMPTIONS = ['the C08_*_valid theorems are about the hand-written models: model/YMsg.v (NOTIFICATION, KEEPALIVE, '
               'ROUTE-REFRESH), YPrefix4.v (IPv4 prefix lists), YAttr.v (the twelve standard attributes), YOpen.v (OPEN), '
               'YUpdate.v (construct_attributes / Update.construct), YMp.v + YPrefix6/YVpn/YLu/YFlow4.v (MP_REACH / '
               'MP_UNREACH of IPv6 unicast, VPNv4/6, labeled unicast, IPv4 flow specification), YCommunity/YExtCom/'
               'YLargeCom.v (communities from API text), YPmsi.v (PMSI tunnel attribute; correspondence run here: construct and parse).  The models are tied to yabgp by the correspondence runs of '
               'C14 (YMsg, YOpen), C06 (YPrefix4, YAttr, YUpdate), C07 (YMp and families) and C17 (communities); the '
               'small-message part and the witnesses of the C08_*_refuted theorems are re-run here.  YPrefix4.v models '
               'the code repaired by build/proposed/c06-prefix-zero-length.diff',
               'the MP theorems hold under the field ranges written in them as boolean guards (prefix length within '
               'the address size; label stack not ending in label 0; flow-specification comparison bits within '
               'LT|GT|EQ); where yabgp does not enforce the range the refuting input is a theorem and a known finding',
               'an UPDATE that carries MP attributes next to standard ones, add-path UPDATEs as a whole, and every '
               'constructor without a model (EVPN, SR-TE, IPv6 flow specification, tunnel encapsulation) are '
               'covered by the walker run on the implementation over the generated input space only (test level, '
               'not proof)',
               'session context the octets do not show (4-octet AS, add-path, Cisco route-refresh type) is '
               'passed to the walker as the same flags that were passed to the constructor']
IMPORTS = 'From YV Require Import lib.Base spec.Walker.\n'
PER_SHARD = 250
KNOWN_FILE = os.path.join(common.VERIF, 'build', 'proposed', 'c08.known.json')


# ------------------------------------------------------------------------------------------
# the constructors, addressed by (kind, input) so that a stored case can be replayed
# ------------------------------------------------------------------------------------------
def _intkeys(d):
    return dict((int(k), v) for k, v in d.items())


def construct(kind, inp):
    """returns the message octets (bytes), or None when the constructor returned no message"""
    if kind == 'update':
        from yabgp.message.update import Update
        msg = dict(inp['msg'])
        if 'attr' in msg:
            msg['attr'] = _intkeys(msg['attr'])
        return Update.construct(msg, asn4=inp.get('asn4', False), addpath=inp.get('addpath', False))
    if kind == 'open':
        from yabgp.message.open import Open
        caps = dict(inp['caps'])
        return Open(version=inp.get('version', 4), asn=inp['asn'], hold_time=inp['hold'],
                    bgp_id=inp['id']).construct(caps)
    if kind == 'notification':
        from yabgp.message.notification import Notification
        return Notification().construct(inp[0], inp[1], bytes.fromhex(inp[2]))
    if kind == 'keepalive':
        from yabgp.message.keepalive import KeepAlive
        return KeepAlive().construct()
    if kind == 'rr':
        from yabgp.message.route_refresh import RouteRefresh
        return RouteRefresh(inp[1], inp[3], inp[2]).construct(inp[0])
    raise ValueError(kind)


def walker_cfg(kind, inp):
    asn4 = addpath = cisco = False
    if kind == 'update':
        asn4, addpath = bool(inp.get('asn4')), bool(inp.get('addpath'))
    if kind == 'rr':
        cisco = inp[0] == 128
    return '(mkw %s %s %s)' % tuple('true' if x else 'false' for x in (asn4, addpath, cisco))


# ------------------------------------------------------------------------------------------
# generators.  every case: (kind, input-class label, input)
# ------------------------------------------------------------------------------------------
def ip4(n):
    return '%d.%d.%d.%d' % ((n >> 24) & 255, (n >> 16) & 255, (n >> 8) & 255, n & 255)


def pfx4(n, l):
    m = (0xffffffff << (32 - l)) & 0xffffffff if l else 0
    return '%s/%d' % (ip4(n & m), l)


def pfx6(n, l):
    import netaddr
    m = ((1 << 128) - 1) ^ ((1 << (128 - l)) - 1) if l else 0
    return '%s/%d' % (netaddr.IPAddress(n & m, 6), l)


BASE_ATTR = {1: 0, 2: [[2, [65001, 65002]]], 3: '10.0.0.1'}
A4 = 0xC0A85A17          # 192.168.90.23
A6 = 0x20010DB8A1B2C3D4E5F60718293A4B5C


def with_attr(code, value):
    a = dict(BASE_ATTR)
    a[code] = value
    return a


def upd(cls, msg, asn4=False, addpath=False):
    return ('update', cls, {'msg': msg, 'asn4': asn4, 'addpath': addpath})


def gen_small(ctx):
    rng = ctx.rng
    out = [('keepalive', 'keepalive', [])]
    for e in list(range(0, 8)) + [255]:
        for s in [0, 1, 2, 11, 255]:
            for n in (0, 1, 6, 64):
                out.append(('notification', 'notification', [e, s, bytes(rng.randrange(256) for _ in range(n)).hex()]))
    for n in (4074, 4075):                       # total 4095 / 4096
        out.append(('notification', 'notification.max', [6, 2, ('ab' * n)]))
    for n in (4076, 5000):
        out.append(('notification', 'oversize', [6, 2, ('ab' * n)]))
    out.append(('notification', 'notification.range', [256, 0, '']))
    for ty in (5, 128):
        for afi in (0, 1, 2, 25, 16388, 65535):
            for safi in (0, 1, 2, 4, 70, 71, 73, 128, 133, 255):
                out.append(('rr', 'rr', [ty, afi, 0, safi]))
        out.append(('rr', 'rr', [ty, 1, 255, 1]))
        out.append(('rr', 'rr.range', [ty, 65536, 0, 1]))
    return out


FAMILIES = [(1, 1), (1, 2), (2, 1), (1, 4), (2, 4), (1, 133), (1, 128), (2, 128), (25, 70), (16388, 71),
            (1, 73), (2, 133)]


def gen_open(ctx):
    rng = ctx.rng
    out = []
    flags = ['cisco_route_refresh', 'route_refresh', 'four_bytes_as', 'enhanced_route_refresh']
    afl = [None, [], [(1, 1)], [(1, 1), (2, 1)], FAMILIES, FAMILIES * 3, FAMILIES * 6]
    enh = [None, [], [{'afi_safi': [1, 1], 'nexthop_afi': 2}],
           [{'afi_safi': [1, s], 'nexthop_afi': 2} for s in (1, 2, 4, 128)],
           [{'afi_safi': [1, s % 256], 'nexthop_afi': 2} for s in range(42)],     # 252 octets
           [{'afi_safi': [1, s % 256], 'nexthop_afi': 2} for s in range(43)]]     # 258: does not fit
    aps = [None, 'ipv4_receive', 'ipv4_send', 'ipv4_both', 'ipv6_both']
    asns = [1, 23456, 65535, 65536, 4200000000, 4294967295, 4294967296]
    combos = []
    for bits in range(16):
        for af in afl:
            for en in enh:
                for ap in aps:
                    combos.append((bits, af, en, ap))
    if not ctx.thorough:
        combos = rng.sample(combos, 250) + [(15, FAMILIES, enh[3], 'ipv4_both'), (0, None, None, None)]
    for bits, af, en, ap in combos:
        caps = dict((f, True) for i, f in enumerate(flags) if bits >> i & 1)
        if af is not None:
            caps['afi_safi'] = [list(x) for x in af]
        if en is not None:
            caps['ext_nexthop'] = en
        if ap is not None:
            caps['add_path'] = ap
        asn = rng.choice(asns)
        hold = rng.choice([0, 3, 90, 180, 65535, 65536])
        out.append(('open', 'open', {'asn': asn, 'hold': hold, 'id': rng.choice([0, 1, 0x0a000001, 0xffffffff]),
                                     'caps': caps}))
    return out


def gen_v4(ctx):
    """IPv4-unicast UPDATE: prefixes of every length, every standard attribute at its boundaries"""
    rng = ctx.rng
    out = []
    for l in range(0, 33):
        for n in (A4, 0, 0xffffffff, rng.randrange(1 << 32)):
            p = pfx4(n, l)
            cls = 'v4.len0' if l == 0 else 'v4.prefix'
            out.append(upd(cls, {'attr': BASE_ATTR, 'nlri': [p]}))
            out.append(upd(cls, {'withdraw': [p]}))
            out.append(upd(cls, {'attr': BASE_ATTR, 'nlri': [p, '10.1.0.0/16'], 'withdraw': ['10.2.0.0/15', p]}))
        p = pfx4(A4, l)
        out.append(upd('v4.len0.addpath' if l == 0 else 'v4.addpath',
                       {'attr': BASE_ATTR, 'nlri': [{'prefix': p, 'path_id': 7}, {'prefix': '10.0.0.0/8', 'path_id': 2 ** 32 - 1}]},
                       addpath=True))
        out.append(upd('v4.len0.addpath' if l == 0 else 'v4.addpath',
                       {'withdraw': [{'prefix': p, 'path_id': 0}]}, addpath=True))
    # many prefixes: up to and beyond the 4096-octet maximum
    for k in (100, 800, 814, 815):
        out.append(upd('v4.many' if 23 + 4 + 21 + 5 * k <= 4096 else 'oversize',
                       {'attr': BASE_ATTR, 'nlri': [pfx4((10 << 24) + (i << 8), 32) for i in range(k)]}))
    out.append(upd('v4.many', {'withdraw': [pfx4((10 << 24) + (i << 8), 24) for i in range(1000)]}))
    out.append(upd('oversize', {'withdraw': [pfx4((10 << 24) + (i << 8), 24) for i in range(1100)]}))
    out.append(upd('v4.empty', {}))
    out.append(upd('v4.empty', {'attr': {}, 'nlri': []}))

    def one(cls, code, value, asn4=False):
        a = dict(BASE_ATTR)
        a[code] = value
        out.append(upd(cls, {'attr': a, 'nlri': ['10.9.8.0/23']}, asn4=asn4))
        out.append(upd(cls, {'attr': {code: value}}, asn4=asn4))

    for v in (0, 1, 2, 3, 255):
        one('attr.origin', 1, v)
    # AS_PATH: segment types, counts up to 255 per segment, total crossing 255 octets
    for asn4 in (False, True):
        w = 4 if asn4 else 2
        big = 4200000000 if asn4 else 65535
        for segs in ([], [[2, []]], [[2, [1]]], [[1, [1, 2, 3]], [2, [big]]], [[3, [64512]], [4, [64513, 64514]]],
                     [[2, list(range(1, 256))]], [[2, list(range(1, 257))]], [[5, [1]]], [[0, [1]]]):
            one('attr.aspath', 2, segs, asn4)
        for total in (253, 254, 255, 256, 257, 258, 300):     # value length = 2 + w*k ... pick k around the boundary
            for k in sorted({(total - 2) // w, (total - 2) // w + 1}):
                one('attr.aspath.boundary', 2, [[2, [(i % 65000) + 1 for i in range(k)]]], asn4)
        # two segments whose sum crosses 255
        one('attr.aspath.boundary', 2, [[2, list(range(1, 60))], [1, list(range(1, 70))]], asn4)
        one('attr.aspath', 2, [[2, [65536]]], asn4)           # does not fit 2 octets when asn4 is off
        for v in ([100, '1.2.3.4'], [big, '0.0.0.0'], [23456, '255.255.255.255']):
            one('attr.aggregator', 7, v, asn4)
    for v in ('0.0.0.0', '10.0.0.1', '255.255.255.255', '::1', 'bogus'):
        one('attr.nexthop', 3, v)
    for code, cls in ((4, 'attr.med'), (5, 'attr.localpref')):
        for v in (0, 1, 2 ** 31, 2 ** 32 - 1, 2 ** 32, -1):
            one(cls, code, v)
    one('attr.atomic', 6, b''.hex())
    one('attr.atomic', 6, '')
    one('attr.atomic', 6, 'x')
    names = ['NO_EXPORT', 'no_advertise', 'NO_EXPORT_SUBCONFED', 'PLANNED_SHUT', 'ACCEPT_OWN', 'BLACKHOLE']
    for k in (0, 1, 2, 62, 63, 64, 65, 100):
        one('attr.community', 8, ['%d:%d' % (i + 1, 65535 - i) for i in range(k)])
    one('attr.community', 8, names)
    one('attr.community', 8, ['65535:65535', '0:0'])
    one('attr.community', 8, ['65536:0'])
    for v in ('1.1.1.1', '0.0.0.0', '255.255.255.255'):
        one('attr.originator', 9, v)
    for k in (0, 1, 2, 63, 64):
        one('attr.clusterlist', 10, [ip4(0x01010101 + i) for i in range(k)])
    for k in (1, 2, 21, 22):
        one('attr.largecommunity', 32, ['%d:%d:%d' % (2 ** 32 - 1 - i, i, 2 ** 31 + i) for i in range(k)])
    one('attr.largecommunity', 32, [])
    one('attr.largecommunity', 32, ['1:2'])
    one('attr.largecommunity', 32, ['1:2:3:4'])
    ecs = [[0x0002, '65001:100'], [0x0102, '1.2.3.4:100'], [0x0202, '4200000000:100'],
           [0x0003, '65001:4294967295'], [0x0103, '10.0.0.1:65535'], [0x0203, '65536:1'],
           [0x8008, '65001:200'], [0x0800, '10.10.10.10', 0], [0x0800, '10.10.10.10', 1],
           [0x8009, 63], [0x8006, '100:1000'], [0x8007, {'s': 1, 't': 1}], [0x8007, {}],
           [0x030b, 100], [0x030b0000, 4294967295], [0x030b4000, 1], [0x030b8000, 2], [0x030bc000, 3],
           [0x030c, 8], [0x0602, '00-11-22-33-44-55'], [0x0601, 1, 1000], [0x0600, 1, 500],
           [0x0603, 'aa-bb-cc-dd-ee-ff'], [0x4004, '65001:100000']]
    for ec in ecs:
        one('attr.extcommunity', 16, [ec])
    one('attr.extcommunity', 16, ecs)
    for k in (30, 31, 32):
        one('attr.extcommunity', 16, [[0x0002, '65001:%d' % i] for i in range(k)])
    one('attr.extcommunity', 16, [[0x9999, 'x']])
    one('attr.extcommunity', 16, [])
    # everything at once
    full = {1: 2, 2: [[2, [65001, 65002]], [1, [65003]]], 3: '10.0.0.1', 4: 50, 5: 100, 6: '', 7: [65001, '1.1.1.1'],
            8: ['NO_EXPORT', '65001:1'], 9: '2.2.2.2', 10: ['3.3.3.3', '4.4.4.4'], 16: ecs[:6],
            32: ['1:2:3', '4294967295:0:1']}
    out.append(upd('attr.all', {'attr': full, 'nlri': ['10.0.0.0/8', '192.168.1.0/24']}))
    out.append(upd('attr.all', {'attr': full, 'nlri': ['10.0.0.0/8'], 'withdraw': ['172.16.0.0/12']}, asn4=True))
    n = 300 if ctx.thorough else 60
    keys = list(full)
    for _ in range(n):
        ks = rng.sample(keys, rng.randrange(1, len(keys) + 1))
        a = dict((k, full[k]) for k in ks)
        if 2 in a:
            a[2] = [[rng.choice([1, 2, 3, 4]), [rng.randrange(1, 65536) for _ in range(rng.choice([1, 3, 60, 126, 127, 128]))]]
                    for _ in range(rng.randrange(1, 4))]
        if 8 in a:
            a[8] = ['%d:%d' % (rng.randrange(65536), rng.randrange(65536)) for _ in range(rng.choice([1, 5, 63]))]
        msg = {'attr': a}
        if rng.random() < 0.7:
            msg['nlri'] = [pfx4(rng.randrange(1 << 32), rng.randrange(1, 33)) for _ in range(rng.randrange(1, 6))]
        if rng.random() < 0.3:
            msg['withdraw'] = [pfx4(rng.randrange(1 << 32), rng.randrange(1, 33)) for _ in range(rng.randrange(1, 6))]
        out.append(upd('attr.random', msg, asn4=rng.random() < 0.5))
    return out


def mp(cls, reach=None, unreach=None, extra=None, nlri=None):
    a = {}
    if reach is not None:
        a = dict(BASE_ATTR)
        del a[3]
        a[14] = reach
    if unreach is not None:
        a[15] = unreach
    if extra:
        a.update(extra)
    msg = {'attr': a}
    if nlri:
        msg['nlri'] = nlri
    return upd(cls, msg)


def gen_mp(ctx):
    rng = ctx.rng
    out = []
    # ---- IPv6 unicast
    for l in range(0, 129):
        for n in (A6, rng.randrange(1 << 128)) + ((0, (1 << 128) - 1) if l % 8 in (0, 1, 7) else ()):
            p = pfx6(n, l)
            out.append(mp('v6.prefix', reach={'afi_safi': [2, 1], 'nexthop': '2001:db8::1', 'nlri': [p]}))
            out.append(mp('v6.prefix', unreach={'afi_safi': [2, 1], 'withdraw': [p]}))
    out.append(mp('v6.prefix', reach={'afi_safi': [2, 1], 'nexthop': '2001:db8::1', 'linklocal_nexthop': 'fe80::1',
                                       'nlri': [pfx6(A6, l) for l in (0, 1, 7, 8, 9, 64, 127, 128)]}))
    out.append(mp('v6.many', reach={'afi_safi': [2, 1], 'nexthop': '2001:db8::1',
                                     'nlri': [pfx6(A6 + (i << 64), 64) for i in range(30)]}))
    out.append(mp('v6.nexthop4', reach={'afi_safi': [2, 1], 'nexthop': '10.0.0.1', 'nlri': ['2001:db8::/32']}))
    out.append(mp('v6.empty', unreach={'afi_safi': [2, 1], 'withdraw': []}))
    # ---- labeled unicast
    stacks = [[16], [1048575], [100, 200], [100, 200, 300], [0], [3, 0]]
    for l in range(0, 33):
        for st in stacks if l in (0, 1, 8, 9, 24, 32) else stacks[:2]:
            cls = 'lu4.len0' if l == 0 else ('lu.label0' if st[-1] == 0 else 'lu4')
            p = pfx4(A4, l)
            out.append(mp(cls, reach={'afi_safi': [1, 4], 'nexthop': '10.0.0.1', 'nlri': [{'prefix': p, 'label': st}]}))
            out.append(mp('lu4.len0' if l == 0 else 'lu4',
                          unreach={'afi_safi': [1, 4], 'withdraw': [{'prefix': p, 'label': st}]}))
    for l in range(0, 129):
        for st in stacks if l in (0, 1, 8, 9, 64, 65, 127, 128) else stacks[:1]:
            cls = 'lu.label0' if st[-1] == 0 else 'lu6'
            for n in (A6, 1 << 100):
                p = pfx6(n, l)
                out.append(mp(cls, reach={'afi_safi': [2, 4], 'nexthop': '2001:db8::1',
                                          'nlri': [{'prefix': p, 'label': st}, {'prefix': '2001:db8:1::/48', 'label': [17]}]}))
    # ---- VPNv4 / VPNv6
    rds = ['100:100', '65536:2', '1.2.3.4:5', '65535:4294967295']
    for l in range(0, 33):
        for rd in rds if l in (0, 1, 8, 24, 32) else rds[:1]:
            for st in stacks[:4] if l in (0, 24, 32) else stacks[:1]:
                r = {'label': st, 'rd': rd, 'prefix': pfx4(A4, l)}
                cls = 'vpn4.len0' if l == 0 else 'vpn4'
                out.append(mp(cls, reach={'afi_safi': [1, 128], 'nexthop': {'rd': '0:0', 'str': '2.2.2.2'}, 'nlri': [r]}))
                out.append(mp(cls, unreach={'afi_safi': [1, 128], 'withdraw': [r, dict(r, prefix='10.0.0.0/8')]}))
    out.append(mp('vpn.label0', reach={'afi_safi': [1, 128], 'nexthop': {'rd': '0:0', 'str': '2.2.2.2'},
                                       'nlri': [{'label': [0], 'rd': '100:100', 'prefix': '10.1.1.0/24'}]}))
    for l in range(0, 129):
        for n in (A6, 1 << 100):
            r = {'label': [54], 'rd': rds[l % 4], 'prefix': pfx6(n, l)}
            out.append(mp('vpn6', reach={'afi_safi': [2, 128], 'nexthop': {'rd': '0:0', 'str': '::ffff:172.16.4.12'},
                                         'nlri': [r, {'label': [55], 'rd': '100:12', 'prefix': '2010:1:12::/64'}]}))
            out.append(mp('vpn6', unreach={'afi_safi': [2, 128], 'withdraw': [r]}))
    # ---- EVPN
    esis = [{'type': 0, 'value': 0}, {'type': 0, 'value': 2 ** 72 - 1}, {'type': 0, 'value': 0x1234},
            {'type': 1, 'value': {'ce_mac_addr': '00-11-22-33-44-55', 'ce_port_key': 10}},
            {'type': 2, 'value': {'rb_mac_addr': '00-11-22-33-44-55', 'rb_priority': 10}},
            {'type': 3, 'value': {'sys_mac_addr': '00-11-22-33-44-55', 'ld_value': 10}},
            {'type': 3, 'value': {'sys_mac_addr': '00-11-22-33-44-55', 'ld_value': 0xabcdef}},
            {'type': 4, 'value': {'router_id': 0x01020304, 'ld_value': 10}},
            {'type': 5, 'value': {'as_num': 65001, 'ld_value': 10}}]
    for nh in ('10.75.44.254', '2001:db8::1'):
        for esi in esis:
            cls = 'evpn.esi3' if esi['type'] == 3 else 'evpn'
            rts = [{'type': 1, 'value': {'rd': '1.1.1.1:32867', 'esi': esi, 'eth_tag_id': 100, 'label': [10]}},
                   {'type': 4, 'value': {'rd': '172.16.0.1:8888', 'esi': esi, 'ip': '192.168.0.1'}},
                   {'type': 4, 'value': {'rd': '172.16.0.1:8888', 'esi': esi, 'ip': '2001:db8::5'}}]
            for ip in (None, '11.11.11.1', '2001:db8::7'):
                for lab in ([0], [100], [100, 200]):
                    v = {'eth_tag_id': 108, 'label': lab, 'rd': '172.17.0.3:2', 'mac': '00-11-22-33-44-55', 'esi': esi}
                    if ip:
                        v['ip'] = ip
                    rts.append({'type': 2, 'value': v})
            for r in rts:
                out.append(mp(cls, reach={'afi_safi': [25, 70], 'nexthop': nh, 'nlri': [r]}))
                out.append(mp(cls, unreach={'afi_safi': [25, 70], 'withdraw': [r]}))
            out.append(mp(cls, reach={'afi_safi': [25, 70], 'nexthop': nh, 'nlri': rts}))
        for ip in ('192.168.0.1', '2001:db8::9'):
            out.append(mp('evpn', reach={'afi_safi': [25, 70], 'nexthop': nh, 'nlri': [
                {'type': 3, 'value': {'rd': '172.16.0.1:5904', 'eth_tag_id': 100, 'ip': ip}}]}))
        for pfx, gw in (('1.1.1.0/24', '1.1.1.1'), ('0.0.0.0/0', '0.0.0.0'), ('2001:3232::1/64', '2001:3232::1')):
            out.append(mp('evpn', reach={'afi_safi': [25, 70], 'nexthop': nh, 'nlri': [
                {'type': 5, 'value': {'esi': 0, 'eth_tag_id': 1, 'gateway': gw, 'label': [10], 'prefix': pfx,
                                      'rd': '65536:2'}}]}))
    # EVPN + PMSI tunnel (+ encapsulation extended community: VNI instead of label)
    imet = {'afi_safi': [25, 70], 'nexthop': '10.75.44.254',
            'nlri': [{'type': 3, 'value': {'rd': '172.16.0.1:5904', 'eth_tag_id': 100, 'ip': '192.168.0.1'}}]}
    for tid in ('4.4.4.4', '2001:db8::4'):
        for lab in (0, 625, 1048575, 16777215):
            pm = {'mpls_label': [lab], 'tunnel_id': tid, 'tunnel_type': 6, 'leaf_info_required': 0}
            out.append(mp('pmsi', reach=imet, extra={22: pm}))
            for enc in (8, 9, 10):
                out.append(mp('pmsi', reach=imet, extra={16: [[0x030c, enc]], 22: dict(pm, leaf_info_required=1)}))
            out.append(upd('pmsi', {'attr': with_attr(22, pm), 'nlri': ['10.0.0.0/8']}))
    for tt in (0, 1, 2, 3, 4, 5, 7):
        out.append(mp('pmsi.other', reach=imet, extra={22: {'mpls_label': [1], 'tunnel_id': '4.4.4.4', 'tunnel_type': tt,
                                                            'leaf_info_required': 0}}))
    # ---- IPv4 flowspec
    ops = ['=80', '=0', '=255', '=256', '=65535', '>=8080', '<=8088', '>1', '<65535', '=80|=8080', '=80|>=8080|<=8088|=1',
           '>=8080&<=8088', '=80|>=8080&<=8088', '=65536', '=4294967295', '=1099511627776']
    for t in (3, 4, 5, 6, 7, 8, 9, 10, 11, 12):
        for o in ops:
            cls = 'flow4.and' if '&' in o else ('flow.len6' if o == '=1099511627776' else 'flow4')
            out.append(mp(cls, reach={'afi_safi': [1, 133], 'nexthop': '', 'nlri': [{1: '192.88.3.0/24', t: o}]}))
    for l in range(0, 33):
        p = pfx4(A4, l)
        out.append(mp('flow4', reach={'afi_safi': [1, 133], 'nexthop': '', 'nlri': [{1: p}]}))
        out.append(mp('flow4', reach={'afi_safi': [1, 133], 'nexthop': '10.0.0.9', 'nlri': [{2: p, 3: '=6'}, {1: p, 2: '10.0.0.0/8'}]}))
        out.append(mp('flow4', unreach={'afi_safi': [1, 133], 'withdraw': [{1: p, 5: '=80'}]}))
    rule = {1: '192.88.3.0/24', 2: '192.89.3.0/24', 3: '=6|=17', 5: '=80|=443|>=8080', 6: '>1024', 10: '<=1500', 11: '=46'}
    out.append(mp('flow4', reach={'afi_safi': [1, 133], 'nexthop': '', 'nlri': [rule, rule]},
                  extra={16: [[0x8006, '0:0'], [0x8008, '65001:7'], [0x8009, 10], [0x0800, '10.1.1.1', 0]]}))
    for k in (70, 76, 77, 78, 79, 80, 82, 83, 84, 120):     # NLRI length 6 + 3k: around 240 and 255
        big = {1: '192.88.3.0/24', 5: '|'.join('=%d' % (1000 + i) for i in range(k))}
        n = 6 + 3 * k
        out.append(mp('flow.ge240' if n >= 240 else 'flow4',
                      reach={'afi_safi': [1, 133], 'nexthop': '', 'nlri': [big]}))
        out.append(mp('flow.ge240' if n >= 240 else 'flow4', unreach={'afi_safi': [1, 133], 'withdraw': [big]}))
    out.append(mp('flow.empty', reach={'afi_safi': [1, 133], 'nexthop': '', 'nlri': [{}]}))
    # ---- IPv6 flowspec (construct only)
    for l in list(range(0, 129, 1 if ctx.thorough else 3)) + [1, 7, 8, 9, 127, 128]:
        for off in sorted({0, 8, 16, l // 2 // 8 * 8, 1, 3, 7, 9, l}):
            if off > l:
                continue
            cls = 'flow6' if off % 8 == 0 or (l - off + 7) // 8 == (l + 7) // 8 - off // 8 else 'flow6.offset'
            pd = {'prefix': pfx6(A6, l), 'offset': off}
            out.append(mp(cls, reach={'afi_safi': [2, 133], 'nexthop': '', 'nlri': [{1: pd}]}))
            if off in (0, 8):
                out.append(mp(cls, reach={'afi_safi': [2, 133], 'nexthop': '2001:db8::1',
                                          'nlri': [{1: pd, 2: {'prefix': '2001:db8::/32', 'offset': 0}, 3: '=6', 13: '=1048575'}]}))
    for t in range(3, 14):
        for o in ops[:11]:
            out.append(mp('flow6', reach={'afi_safi': [2, 133], 'nexthop': '',
                                          'nlri': [{1: {'prefix': '2001:db8::/32', 'offset': 0}, t: o}]}))
    out.append(mp('flow6.and', reach={'afi_safi': [2, 133], 'nexthop': '',
                                      'nlri': [{1: {'prefix': '2001:db8::/32', 'offset': 0}, 5: '>=80&<=90'}]}))
    for k in (70, 76, 77, 78, 79, 90):                      # 8 + 3k
        big = {1: {'prefix': '2001:db8::/32', 'offset': 0}, 5: '|'.join('=%d' % (1000 + i) for i in range(k))}
        out.append(mp('flow.ge240' if 8 + 3 * k >= 240 else 'flow6',
                      reach={'afi_safi': [2, 133], 'nexthop': '', 'nlri': [big]}))
    # ---- flowspec v4 / v6: NLRI bodies of exactly n octets on both sides of the length-form switch
    # (below 240 one length octet, from 240 on 0xfnnn), and the largest that fits a 4096-octet message
    def ports(n):
        """operator list of a component of exactly n octets: type + 3-octet items + 2-octet items"""
        a = (n - 1) // 3
        while (n - 1 - 3 * a) % 2:
            a -= 1
        b = (n - 1 - 3 * a) // 2
        return '|'.join(['=%d' % (1000 + i) for i in range(a)] + ['=%d' % (10 + i % 200) for i in range(b)])
    for n in list(range(234, 247)) + [254, 255, 256, 257, 511, 512, 4000]:
        cls = 'flow.ge240' if n >= 240 else 'flow.lt240'
        r4 = {1: '192.88.3.0/24', 5: ports(n - 5)}
        r6 = {1: {'prefix': '2001:db8::/32', 'offset': 0}, 5: ports(n - 7)}
        out.append(mp(cls, reach={'afi_safi': [1, 133], 'nexthop': '', 'nlri': [r4]}))
        out.append(mp(cls, unreach={'afi_safi': [1, 133], 'withdraw': [r4]}))
        out.append(mp(cls, reach={'afi_safi': [2, 133], 'nexthop': '', 'nlri': [r6]}))
        if n < 1000:
            small = {1: '10.0.0.0/8', 3: '=6'}
            out.append(mp(cls, reach={'afi_safi': [1, 133], 'nexthop': '10.0.0.9', 'nlri': [small, r4, small]}))
            out.append(mp(cls, reach={'afi_safi': [2, 133], 'nexthop': '2001:db8::1',
                                      'nlri': [r6, {1: {'prefix': '2001:db8::/32', 'offset': 0}, 3: '=6'}]}))
    # ---- SR-TE policy NLRI + tunnel encapsulation attribute
    sid = {'label': 3000, 'TC': 0, 'S': 0, 'TTL': 255}
    segs = [{'1': {'label': 2000}}, {'1': {'label': 1048575, 'TC': 7, 'S': 1, 'TTL': 1}},
            {'3': {'node': '10.1.1.1'}}, {'3': {'node': '10.1.1.1', 'SID': sid}},
            {'5': {'interface': 9, 'node': '10.1.1.1'}}, {'5': {'interface': 2 ** 32 - 1, 'node': '10.1.1.1', 'SID': sid}},
            {'6': {'local': '10.1.1.1', 'remote': '10.1.1.2'}}, {'6': {'local': '10.1.1.1', 'remote': '10.1.1.2', 'SID': sid}}]
    pols = []
    for enc in ('old', 'new'):
        pols.append({'0': enc})
        for s in segs:
            pols.append({'0': enc, '128': [{'1': [s]}]})
            pols.append({'0': enc, '12': 100, '13': 25102, '128': [{'9': 10, '1': [s, segs[0]]}]})
        pols.append({'0': enc, '6': 100, '7': 25102, '128': [{'9': 10, '1': segs}, {'9': 2 ** 32 - 1, '1': segs[:3]}]}
                    if enc == 'old' else
                    {'0': enc, '12': 2 ** 32 - 1, '13': 1048575, '14': 1, '15': 200, '129': 'policy-A',
                     '6': {'asn': 300, 'afi': 'ipv4', 'address': '1.1.1.1'},
                     '128': [{'9': 10, '1': segs}, {'9': 2 ** 32 - 1, '1': segs[:3]}]})
        pols.append({'0': enc, '12': 100})
        pols.append({'0': enc, '13': 25102})
        pols.append({'0': enc, '7': 25102})
        pols.append({'0': enc, '6': 100} if enc == 'old' else
                    {'0': enc, '6': {'asn': 300, 'afi': 'ipv6', 'address': 'abcd:ef01:2345:6789:abcd:ef01:2345:6789'}})
        pols.append({'0': enc, '128': [{'1': []}]})
        pols.append({'0': enc, '128': [{'9': 1, '1': [segs[0]] * 40}]})            # segment list > 255 octets
        pols.append({'0': enc, '128': [{'9': i, '1': segs} for i in range(12)]})   # many segment lists
    for k in (0, 1, 126, 127, 128, 254, 255, 256, 300):
        pols.append({'0': 'new', '129': 'n' * k})
    for v in (0, 1, 2, 3, 4, 255):
        pols.append({'0': 'new', '14': v})
        pols.append({'0': 'new', '15': v})
    pols.append({'0': 'new', '6': {'asn': 1, 'afi': 'ipv4', 'address': '2001:db8::1'}})     # family / address mismatch
    pols.append({'0': 'bogus'})
    pols.append({'12': 100})
    for ep, nh in (('192.168.5.7', '192.168.5.5'), ('2001:db8::7', '2001:db8::5'), ('192.168.5.7', '2001:db8::5')):
        srte = {'afi_safi': [1, 73], 'nexthop': nh, 'nlri': {'distinguisher': 0, 'color': 10, 'endpoint': ep}}
        cls = 'srte.endpoint6' if ':' in ep else 'srte'
        out.append(mp(cls, reach=srte))
        out.append(mp(cls, unreach={'afi_safi': [1, 73], 'withdraw': srte['nlri']}))
        for p in pols if ep == '192.168.5.7' and nh == '192.168.5.5' else pols[:3]:
            out.append(mp(cls if cls != 'srte' else 'tunnel', reach=srte, extra={23: p, 16: [[0x030b, 10]]}))
    srte = {'afi_safi': [1, 73], 'nexthop': '192.168.5.5',
            'nlri': {'distinguisher': 2 ** 32 - 1, 'color': 2 ** 32 - 1, 'endpoint': '0.0.0.0'}}
    out.append(mp('srte', reach=srte, extra={23: pols[3]}))
    for p in pols[:6]:
        out.append(upd('tunnel', {'attr': with_attr(23, p), 'nlri': ['10.0.0.0/8']}))
    return out


# ------------------------------------------------------------------------------------------
# free text.  Everything the constructors take as text can arrive in the JSON body of the REST API
# (POST /v1/peer/<ip>/send/update): JSON strings are arbitrary Unicode (json.loads even keeps lone
# surrogates).  Every string leaf of a set of representative inputs is replaced by "legal but unusual"
# text; the constructor has to refuse it or emit something the walker accepts.
# ------------------------------------------------------------------------------------------
FULLWIDTH = dict((ord('0') + i, 0xff10 + i) for i in range(10))       # int('１２') == 12
ARABIC = dict((ord('0') + i, 0x0660 + i) for i in range(10))          # int('١٢') == 12
UNUSUAL_TEXT = [
    '', ' ', '\t', '\n', '\x00', 'a\x00b', '\x7f',
    '\xe9', 'n\xfacleo-1', 'policy-\u4e1c', '\u540d' * 5, '\xff', '\u00df', '\u0130',
    'e\u0301', '\u202e', '\ufeff', '\U0001f600', '\udc80', '\ud83d',
    '\uff11\uff12', '\u0663', '\u00b2', '\u2460', '1_0', '+1', '-1', '0x10', '1e3', '1.0', 'nan', 'None',
    'x' * 255, 'x' * 256, 'x' * 65536, '\xe9' * 127, '\xe9' * 128, '\u4e1c' * 85, '\u4e1c' * 86,
    '1' * 255, '9' * 40,
]
# policy names (tunnel encapsulation sub-TLV 129): the sub-TLV length has to be the number of OCTETS
# written; names whose encoded size differs from their number of characters, around 255/256 and 65535
POLICY_NAMES = [
    'core-1', '', ' ', '\x00', 'a\x00b', '\x7f' * 3, '~' * 255, '~' * 256,
    'n\xfacleo-1', 'policy-\u4e1c', '\xe9', '\xff', '\u4e1c', '\U0001f600', 'e\u0301', '\ufeff' + 'p', '\u202e' + 'p',
    'a' * 253 + '\xe9', 'a' * 254 + '\xe9', 'a' * 255 + '\xe9', '\xe9' * 127, '\xe9' * 128, '\u4e1c' * 85,
    '\u4e1c' * 86, '\U0001f600' * 64, 'a' * 65533 + '\xe9', '\udc80', 'p\ud83d', 'caf\xe9-\u6771\u4eac-\U0001f680',
    '\u0430\u0431\u0432', '\u05e9\u05dc\u05d5\u05dd', '\u0661\u0662',
]


def _string_leaves(x, path=()):
    """paths of the string values of a JSON-like value (dictionary keys are left alone)"""
    if isinstance(x, str):
        yield path
    elif isinstance(x, dict):
        for k in x:
            for q in _string_leaves(x[k], path + (k,)):
                yield q
    elif isinstance(x, (list, tuple)):
        for i, v in enumerate(x):
            for q in _string_leaves(v, path + (i,)):
                yield q


def _get(x, path):
    for k in path:
        x = x[k]
    return x


def _subst(x, path, new):
    """copy of x with the value at path replaced"""
    if not path:
        return new
    if isinstance(x, dict):
        return dict((k, _subst(v, path[1:], new) if k == path[0] else v) for k, v in x.items())
    return [(_subst(v, path[1:], new) if i == path[0] else v) for i, v in enumerate(x)]


def text_variants(orig, rng, thorough):
    out = list(UNUSUAL_TEXT)
    out += [orig + ' ', ' ' + orig, orig + '\n', orig + '\x00', orig + '\xe9', orig + '\u4e1c', '\ufeff' + orig,
            orig.translate(FULLWIDTH), orig.translate(ARABIC), orig.upper(), orig.lower(),
            orig.replace('.', '\u3002').replace(':', '\uff1a').replace('/', '\u2215').replace('-', '\u2010'),
            orig * 2, orig + ',' + orig, orig[:-1], orig[1:]]
    # the same text with one group fewer / one group more / an empty group ('00-11-22-33-44',
    # '1.2.3', '100:12:12', '10.0.0.0/8/8', '=80|')
    for sep in '-:./|':
        g = orig.split(sep)
        if len(g) > 1:
            out += [sep.join(g[:-1]), sep.join(g + g[-1:]), sep.join(g[:-1] + ['']), sep.join([''] + g[1:]),
                    sep.join(g[:1] + [''] + g[1:])]
    if thorough:
        out += [orig[:i] + '\xe9' + orig[i:] for i in range(1, len(orig))][:12]
    seen, res = set(), []
    for t in out:
        if t != orig and t not in seen:
            seen.add(t)
            res.append(t)
    return res


def text_templates():
    """representative inputs: one per constructor / sub-constructor that takes text"""
    sid = {'label': 3000, 'TC': 0, 'S': 0, 'TTL': 255}
    segs = [{'1': {'label': 2000}}, {'3': {'node': '10.1.1.1', 'SID': sid}},
            {'5': {'interface': 9, 'node': '10.1.1.1'}}, {'6': {'local': '10.1.1.1', 'remote': '10.1.1.2'}}]
    srte = {'afi_safi': [1, 73], 'nexthop': '192.168.5.5', 'nlri': {'distinguisher': 0, 'color': 10, 'endpoint': '192.168.5.7'}}
    esi1 = {'type': 1, 'value': {'ce_mac_addr': '00-11-22-33-44-55', 'ce_port_key': 10}}
    t = []
    full = {1: 2, 2: [[2, [65001, 65002]]], 3: '10.0.0.1', 4: 50, 5: 100, 6: '', 7: [65001, '1.1.1.1'],
            8: ['NO_EXPORT', '65001:1'], 9: '2.2.2.2', 10: ['3.3.3.3', '4.4.4.4'],
            16: [[0x0002, '65001:100'], [0x0102, '1.2.3.4:100'], [0x0202, '4200000000:100'], [0x8008, '65001:200'],
                 [0x0800, '10.10.10.10', 0], [0x8006, '100:1000'], [0x0602, '00-11-22-33-44-55'], [0x4004, '65001:100000']],
            32: ['1:2:3', '4294967295:0:1']}
    t.append(('text.v4', {'attr': full, 'nlri': ['10.0.0.0/8', '192.168.1.0/24'], 'withdraw': ['172.16.0.0/12']}))

    def mpt(cls, reach=None, unreach=None, extra=None):
        t.append((cls, mp(cls, reach=reach, unreach=unreach, extra=extra)[2]['msg']))
    mpt('text.v6', reach={'afi_safi': [2, 1], 'nexthop': '2001:db8::1', 'linklocal_nexthop': 'fe80::1', 'nlri': ['2001:db8:1::/48']})
    mpt('text.v6', unreach={'afi_safi': [2, 1], 'withdraw': ['2001:db8:1::/48']})
    for afi, nh, p in ((1, '10.0.0.1', '192.168.90.0/24'), (2, '2001:db8::1', '2001:db8:1::/48')):
        mpt('text.lu', reach={'afi_safi': [afi, 4], 'nexthop': nh, 'nlri': [{'prefix': p, 'label': [16]}]})
        mpt('text.lu', unreach={'afi_safi': [afi, 4], 'withdraw': [{'prefix': p, 'label': [16]}]})
        r = {'label': [54], 'rd': '100:12', 'prefix': p}
        mpt('text.vpn', reach={'afi_safi': [afi, 128], 'nexthop': {'rd': '0:0', 'str': '2.2.2.2' if afi == 1 else '::ffff:172.16.4.12'},
                               'nlri': [r, dict(r, rd='1.2.3.4:5'), dict(r, rd='65536:2')]})
        mpt('text.vpn', unreach={'afi_safi': [afi, 128], 'withdraw': [r]})
    rts = [{'type': 1, 'value': {'rd': '1.1.1.1:32867', 'esi': esi1, 'eth_tag_id': 100, 'label': [10]}},
           {'type': 2, 'value': {'eth_tag_id': 108, 'label': [100], 'rd': '172.17.0.3:2', 'mac': '00-11-22-33-44-55',
                                 'esi': {'type': 2, 'value': {'rb_mac_addr': '00-11-22-33-44-55', 'rb_priority': 10}},
                                 'ip': '11.11.11.1'}},
           {'type': 3, 'value': {'rd': '172.16.0.1:5904', 'eth_tag_id': 100, 'ip': '2001:db8::9'}},
           {'type': 4, 'value': {'rd': '172.16.0.1:8888',
                                 'esi': {'type': 3, 'value': {'sys_mac_addr': '00-11-22-33-44-55', 'ld_value': 0xabcdef}},
                                 'ip': '192.168.0.1'}},
           {'type': 5, 'value': {'esi': 0, 'eth_tag_id': 1, 'gateway': '1.1.1.1', 'label': [10], 'prefix': '1.1.1.0/24',
                                 'rd': '65536:2'}}]
    mpt('text.evpn', reach={'afi_safi': [25, 70], 'nexthop': '10.75.44.254', 'nlri': rts})
    mpt('text.evpn', unreach={'afi_safi': [25, 70], 'withdraw': rts[:4]})
    mpt('text.pmsi', reach={'afi_safi': [25, 70], 'nexthop': '10.75.44.254', 'nlri': rts[2:3]},
        extra={16: [[0x030c, 8]], 22: {'mpls_label': [625], 'tunnel_id': '4.4.4.4', 'tunnel_type': 6, 'leaf_info_required': 0}})
    rule = {1: '192.88.3.0/24', 2: '192.89.3.0/24', 3: '=6|=17', 5: '=80|=443|>=8080', 6: '>1024', 10: '<=1500', 11: '=46'}
    mpt('text.flow4', reach={'afi_safi': [1, 133], 'nexthop': '10.0.0.9', 'nlri': [rule]},
        extra={16: [[0x8006, '0:0'], [0x8008, '65001:7'], [0x0800, '10.1.1.1', 0]]})
    mpt('text.flow4', unreach={'afi_safi': [1, 133], 'withdraw': [rule]})
    mpt('text.flow6', reach={'afi_safi': [2, 133], 'nexthop': '2001:db8::1',
                             'nlri': [{1: {'prefix': '2001:db8::/32', 'offset': 0}, 3: '=6', 13: '=1048575'}]})
    mpt('text.srte', reach=srte, extra={23: {'0': 'new', '12': 100, '13': 25102, '14': 1, '15': 200, '129': 'policy-A',
                                             '6': {'asn': 300, 'afi': 'ipv4', 'address': '1.1.1.1'},
                                             '128': [{'9': 10, '1': segs}]}, 16: [[0x030b, 10]]})
    mpt('text.srte', reach=srte, extra={23: {'0': 'old', '6': 100, '7': 25102, '128': [{'9': 10, '1': segs}]}})
    mpt('text.srte', unreach={'afi_safi': [1, 73], 'withdraw': srte['nlri']})
    return t


def gen_text(ctx):
    rng = ctx.rng
    out = []
    # ---- policy name: every name alone, in front of a segment list, and in front of other sub-TLVs
    srte = {'afi_safi': [1, 73], 'nexthop': '192.168.5.5', 'nlri': {'distinguisher': 0, 'color': 10, 'endpoint': '192.168.5.7'}}
    seglist = [{'9': 10, '1': [{'1': {'label': 2000}}, {'3': {'node': '10.1.1.1', 'SID': {'label': 3000}}}]}]
    names = list(POLICY_NAMES)
    for k in ((1, 2, 3, 42, 84, 126, 127, 129, 254, 255, 256, 257) if ctx.thorough else (1, 127, 255)):
        names.append(''.join(rng.choice(['a', '\xe9', '\u4e1c', '\U0001f600', '-', '\u0644']) for _ in range(k)))
    for name in names:
        for pol in ({'0': 'new', '129': name},
                    {'0': 'new', '12': 100, '13': 25102, '129': name, '128': seglist},
                    {'0': 'new', '129': name, '6': {'asn': 300, 'afi': 'ipv4', 'address': '1.1.1.1'}, '128': seglist},
                    {'0': 'old', '129': name, '128': seglist}):
            if len(name) > 1000 and '128' in pol and '6' in pol:
                continue
            out.append(mp('text.policyname', reach=srte, extra={23: pol}))
        out.append(upd('text.policyname', {'attr': with_attr(23, {'0': 'new', '129': name}), 'nlri': ['10.0.0.0/8']}))
    # ---- every string leaf of the representative inputs x unusual text
    n_leaves = 0
    for cls, msg in text_templates():
        for path in _string_leaves(msg):
            n_leaves += 1
            orig = _get(msg, path)
            vs = text_variants(orig, rng, ctx.thorough)
            if not ctx.thorough:
                keep = [v for v in vs if len(v) <= 300]
                vs = keep
            for v in vs:
                out.append(upd(cls, _subst(msg, path, v), asn4=(n_leaves % 2 == 0)))
    gen_text.leaves = n_leaves
    return out


# Two findings of the proof work on C08_mp_{vpn,lu,flow4,ipv6}_valid, both repaired in yabgp since
# (fix: a prefix length (or flow-specification offset) outside the address size must be an error ...;
#  fix: MP_REACH_NLRI for IPv6 unicast with a link-local next hop needs two IPv6 addresses):
# their inputs are generated on every run and construction has to FAIL for each of them.
MUST_FAIL_CLASSES = ('prefixlen.range', 'v6.nexthop.mixed')

# EVPN ESI type 0 values that do not fit 9 octets (seen by the C07 EVPN work, decided here): with an even
# number of hex digits the ESI is written with 11 or more octets.  Proposed both as a repair
# (build/proposed/c08-evpn-esi0-range.patch) and as a known finding (build/proposed/known_C08_more.json);
# the inputs run once either is in place - with the repair construction must fail (class 'evpn.esi0.range'
# joins the must-fail classes), with the known entry the invalid messages are reported under its id.
# Until then they are only counted (extra['pending_inputs_skipped']): this module can register neither.
ESI0_ID = 'C08-evpn-esi0-range'
ESI0_CLASS = 'evpn.esi0.range'


def known_registered(kid):
    try:
        return any(k.get('id') == kid for k in common.known_findings('C08'))
    except Exception:
        return False


def esi0_repaired():
    try:
        from yabgp.message.attribute.nlri.evpn import EVPN
        EVPN.construct_esi({'type': 0, 'value': 2 ** 76})
    except Exception:
        return True
    return False


def gen_esi0(ctx):
    out = []
    for v in (2 ** 72, 2 ** 76, 2 ** 80 - 1, 2 ** 84 + 5, 2 ** 88, 2 ** 128, -1):
        esi = {'type': 0, 'value': v}
        out.append(mp(ESI0_CLASS, reach={'afi_safi': [25, 70], 'nexthop': '10.75.44.254', 'nlri': [
            {'type': 1, 'value': {'rd': '1.1.1.1:32867', 'esi': esi, 'eth_tag_id': 100, 'label': [10]}}]}))
        out.append(mp(ESI0_CLASS, unreach={'afi_safi': [25, 70], 'withdraw': [
            {'type': 4, 'value': {'rd': '172.16.0.1:8888', 'esi': esi, 'ip': '192.168.0.1'}}]}))
        out.append(mp(ESI0_CLASS, reach={'afi_safi': [25, 70], 'nexthop': '2001:db8::1', 'nlri': [
            {'type': 2, 'value': {'eth_tag_id': 108, 'label': [100], 'rd': '172.17.0.3:2',
                                  'mac': '00-11-22-33-44-55', 'esi': esi, 'ip': '11.11.11.1'}}]}))
    return out


def gen_prefixlen(ctx):
    """prefix texts whose length part is outside the address size (or whose address is of the other family)
    for the constructors that take the length from int(text): VPNv4, labeled unicast v4, flow specification"""
    out = []
    cls = 'prefixlen.range'
    for l in (33, 40, 64, 128, 167, 255, -8):
        p = '10.0.0.0/%d' % l
        out.append(mp(cls, reach={'afi_safi': [1, 128], 'nexthop': {'rd': '0:0', 'str': '10.0.0.1'},
                                  'nlri': [{'label': [25], 'rd': '100:100', 'prefix': p}]}))
        out.append(mp(cls, unreach={'afi_safi': [1, 128], 'withdraw': [{'rd': '100:100', 'prefix': p}]}))
        out.append(mp(cls, reach={'afi_safi': [1, 4], 'nexthop': '10.0.0.1', 'nlri': [{'label': [25], 'prefix': p}]}))
        out.append(mp(cls, unreach={'afi_safi': [1, 4], 'withdraw': [{'label': [25], 'prefix': p}]}))
        if l > 0:
            out.append(mp(cls, reach={'afi_safi': [1, 133], 'nexthop': '', 'nlri': [{1: '192.96.3.0/%d' % l}]}))
            out.append(mp(cls, unreach={'afi_safi': [1, 133], 'withdraw': [{2: '192.96.3.0/%d' % l}]}))
    out.append(mp(cls, reach={'afi_safi': [1, 133], 'nexthop': '', 'nlri': [{1: '2001:db8::/32'}]}))
    for pd in ({'prefix': '2001:db8::/129', 'offset': 0}, {'prefix': '2001:db8::/200', 'offset': 0},
               {'prefix': '10.0.0.0/64', 'offset': 0}, {'prefix': '2001:db8::/32', 'offset': 40}):
        out.append(mp(cls, reach={'afi_safi': [2, 133], 'nexthop': '', 'nlri': [{1: pd}]}))
    return out


def gen_nexthop6(ctx):
    """IPv6 unicast MP_REACH_NLRI whose global / link-local next hops are not both IPv6 addresses"""
    cls = 'v6.nexthop.mixed'
    return [mp(cls, reach={'afi_safi': [2, 1], 'nexthop': g, 'linklocal_nexthop': ll, 'nlri': ['2001:db8::/32']})
            for (g, ll) in (('10.0.0.1', 'fe80::1'), ('2001:db8::1', '169.254.0.1'), ('10.0.0.1', '169.254.0.1'))]


ASN_EDGE = [0, 1, 23456, 65534, 65535, 65536, 65537, 131072, 2 ** 31, 4200000000, 2 ** 32 - 1, 2 ** 32]


def gen_asn(ctx):
    """every attribute that carries AS numbers, in BOTH AS-number modes (asn4 False / True), with AS numbers
    on both sides of 65535 and of 2^32 (where a number does not fit the mode construction has to fail):
    AGGREGATOR, AS_PATH (one number, mixed segments, all four segment types), AS4_PATH / AS4_AGGREGATOR
    (no construct branch today: skipped silently - kept so that a branch added later is walked), and the
    extended communities with an AS field (2-octet-AS and 4-octet-AS route target / origin, redirect-to-VRF,
    link bandwidth, traffic rate)"""
    rng = ctx.rng
    out = []

    def one(cls, attr, asn4):
        a = dict(BASE_ATTR)
        a.update(attr)
        out.append(upd(cls, {'attr': a, 'nlri': ['10.9.8.0/23']}, asn4=asn4))
        out.append(upd(cls, {'attr': attr}, asn4=asn4))

    for asn4 in (False, True):
        for asn in ASN_EDGE:
            for ip in ('1.2.3.4', '0.0.0.0'):
                one('asn.aggregator', {7: [asn, ip]}, asn4)
            one('asn.aggregator', {7: [asn, '10.0.0.1'], 2: [[2, [asn]]]}, asn4)
            one('asn.as4_aggregator', {18: [asn, '10.0.0.1']}, asn4)
            one('asn.as4_aggregator', {7: [23456, '10.0.0.1'], 18: [asn, '10.0.0.1']}, asn4)
            for t in (1, 2, 3, 4):
                one('asn.aspath', {2: [[t, [asn]]]}, asn4)
            one('asn.aspath', {2: [[2, [65001, asn, 65002]], [1, [asn, 1]]]}, asn4)
            one('asn.aspath', {2: [[2, [asn] * 64]]}, asn4)                 # 128 / 256 octets of AS numbers
            one('asn.as4_path', {17: [[2, [asn, 65001]]]}, asn4)
            one('asn.as4_path', {2: [[2, [23456, 65001]]], 17: [[2, [asn, 65001]]]}, asn4)
            # extended communities with an AS field: administrator on both sides of 65535 for each layout
            for code in (0x0002, 0x0202, 0x0003, 0x0203, 0x8008, 0x4004, 0x8006):
                for num in (0, 65535, 65536, 2 ** 32 - 1):
                    one('asn.extcommunity', {16: [[code, '%d:%d' % (asn, num)]]}, asn4)
        for _ in range(12 if ctx.thorough else 4):       # seeded mixtures around the two limits
            asns = [rng.choice(ASN_EDGE + [rng.randrange(1, 70000), rng.randrange(60000, 2 ** 32)]) for _ in range(4)]
            one('asn.mixed', {2: [[2, asns[:2]], [1, asns[2:]]], 7: [asns[0], ip4(rng.randrange(1 << 32))],
                              16: [[0x0002, '%d:1' % asns[1]], [0x0202, '%d:1' % asns[2]]]}, asn4)
    return out


def generate(ctx):
    cases = gen_small(ctx) + gen_open(ctx) + gen_v4(ctx) + gen_asn(ctx) + gen_mp(ctx) + gen_text(ctx)
    cases += gen_prefixlen(ctx) + gen_nexthop6(ctx)
    generate.esi0_repaired = esi0_repaired()
    if generate.esi0_repaired or known_registered(ESI0_ID):
        cases += gen_esi0(ctx)
        generate.pending_skipped = 0
    else:
        generate.pending_skipped = len(gen_esi0(ctx))
    # the committed corpus of earlier failures runs first
    corpus = []
    d = os.path.join(common.VERIF, 'findings')
    if os.path.isdir(d):
        for f in sorted(os.listdir(d)):
            if f.lower().startswith('c08') and f.endswith('.json'):
                try:
                    o = json.load(open(os.path.join(d, f)))
                    corpus.append((o['kind'], o.get('class', 'corpus'), o['input']))
                except Exception:
                    pass
    return corpus + cases


# ------------------------------------------------------------------------------------------
# known findings (build/proposed/c08.known.json -> known_findings.json): constructor + input class
# ------------------------------------------------------------------------------------------
def _attr(inp, code):
    a = inp.get('msg', {}).get('attr') or {}
    return a.get(code, a.get(str(code)))


def _mp_nlri(inp):
    """(afi, safi, list of NLRI inputs) of the MP_REACH / MP_UNREACH inputs of an update"""
    res = []
    for code, key in ((14, 'nlri'), (15, 'withdraw')):
        v = _attr(inp, code)
        if isinstance(v, dict) and 'afi_safi' in v:
            n = v.get(key)
            res.append((tuple(v['afi_safi']), n if isinstance(n, list) else [n]))
    return res


def classify(kind, inp, msg):
    """the known-finding id whose (constructor, input class) this invalid case falls into, or None.
    Only the classes of build/proposed/c08.known.json; everything else is a new violation."""
    if msg is not None and len(msg) > 4096:
        return 'C08-oversize'
    if kind != 'update':
        return None
    fams = _mp_nlri(inp)
    for (fam, nl) in fams:
        for n in nl:
            if not isinstance(n, dict):
                continue
            if fam in ((1, 133), (2, 133)) and any(isinstance(v, str) and '&' in v for v in n.values()):
                return 'C08-flowspec-and-dropped'
    # MAC address text that is not six '-'-separated groups (every construct site joins one octet per group)
    macs = []
    for ec in (_attr(inp, 16) or []):
        if isinstance(ec, (list, tuple)) and len(ec) > 1 and ec[0] in (0x0602, 0x0603):
            macs.append(ec[1])
    for (fam, nl) in fams:
        if fam != (25, 70):
            continue
        for n in nl:
            v = n.get('value') if isinstance(n, dict) else None
            if not isinstance(v, dict):
                continue
            if n.get('type') == 2:
                macs.append(v.get('mac'))
            e = v.get('esi')
            if isinstance(e, dict) and isinstance(e.get('value'), dict):
                macs += [x for k, x in e['value'].items() if k.endswith('mac_addr')]
    if any(isinstance(m, str) and len(m.split('-')) != 6 for m in macs):
        return 'C08-mac-text-not-six-groups'
    # ESI type 0 whose value does not fit 9 octets
    for (fam, nl) in fams:
        if fam != (25, 70):
            continue
        for n in nl:
            v = n.get('value') if isinstance(n, dict) else None
            e = v.get('esi') if isinstance(v, dict) else None
            if isinstance(e, dict) and e.get('type') == 0 and isinstance(e.get('value'), int) \
                    and not 0 <= e['value'] < 2 ** 72:
                return ESI0_ID
    for (fam, nl) in fams:
        for n in nl:
            if fam == (25, 70) and isinstance(n, dict) and n.get('type') in (3, 4) and \
                    isinstance(n.get('value'), dict) and not n['value'].get('ip'):
                return 'C08-evpn-originator-ip-missing'
    for (fam, nl) in fams:
        for n in nl:
            if not isinstance(n, dict):
                continue
            if fam == (2, 133):
                for t in (1, 2, '1', '2'):
                    pd = n.get(t)
                    if isinstance(pd, dict) and pd.get('offset', 0) % 8 != 0:
                        return 'C08-flowspec6-offset'
            if fam in ((1, 4), (2, 4), (1, 128), (2, 128)) and _attr(inp, 14):
                if n.get('label') and n['label'][-1] == 0:
                    return 'C08-label0-no-bos'
            if fam == (1, 73) and ':' in str(n.get('endpoint', '')):
                return 'C08-srte-ipv6-endpoint'
    return None


# ------------------------------------------------------------------------------------------
def run_constructors(cases):
    """-> list of (index, bytes) for messages, counters"""
    msgs, n_exc, n_none, exc_kinds = [], 0, 0, {}
    for i, (kind, cls, inp) in enumerate(cases):
        try:
            m = construct(kind, inp)
        except Exception as e:        # "construction fails with an error"
            n_exc += 1
            exc_kinds[type(e).__name__] = exc_kinds.get(type(e).__name__, 0) + 1
            continue
        if m is None:
            n_none += 1
            continue
        if not isinstance(m, (bytes, bytearray)):
            msgs.append((i, None))
            continue
        msgs.append((i, bytes(m)))
    return msgs, n_exc, n_none, exc_kinds


def walker_invalid(ctx, cases, msgs):
    """indices (into msgs) the Coq walker rejects; None if the walker cannot be evaluated"""
    real = [(j, i, m) for j, (i, m) in enumerate(msgs) if m is not None]
    shards, owners = [], []
    for s in range(0, len(real), PER_SHARD):
        part = real[s:s + PER_SHARD]
        body = ';\n'.join('(%s, %s)' % (walker_cfg(cases[i][0], cases[i][2]), coq_bytes(m)) for (_, i, m) in part)
        shards.append('Definition cases : list (wcfg * bytes) := [\n%s\n].\n'
                      'Eval vm_compute in (invalid_indices cases).\n' % body)
        owners.append([j for (j, _, _) in part])
    bad, errors = [], []
    for k, (rc, out) in enumerate(common.coq_eval_shards(ctx.prop, shards, imports=IMPORTS)):
        idx = common.parse_nats(out)
        if rc != 0 or idx is None:
            errors.append('walker case file %d does not evaluate: %s' % (k, common.first_error(out)))
            continue
        bad += [owners[k][x] for x in idx]
    bad += [j for j, (i, m) in enumerate(msgs) if m is None]
    return sorted(bad), errors


def correspondence_small(ctx):
    """model/YMsg.v constructors vs implementation (the models the C08 theorems are about)"""
    try:
        import props.c14 as c14
    except Exception:
        return 0, []
    cs = [c for c in c14.gen_small(ctx) if c[3][0] in ('notification_construct', 'keepalive_construct', 'rr_construct')]
    _, mism = c14.correspond(ctx, cs, c14.IMPORTS)
    return len(cs), mism


WITNESS_IMPORTS = ('From YV Require Import lib.Base gen.Consts model.YMp model.YLabel model.YVpn model.YLu '
                   'model.YFlow4.\n')


def correspondence_witnesses(ctx):
    """the inputs of C08_mp_label0_refuted and C08_mp_prefix_length_is_error: the model's result is the
    implementation's (octets for octets; an exception where the model says Exc)"""
    from yabgp.message.attribute.mpreachnlri import MpReachNLRI
    from yabgp.message.attribute.mpunreachnlri import MpUnReachNLRI
    from session import Bytes, coq_sx
    vnh = {'rd': '0:0', 'str': '10.0.0.1'}
    v40 = {'label': [25], 'rd': '100:100', 'prefix': '10.0.0.0/40'}
    l40 = {'label': [25], 'prefix': '10.0.0.0/40'}
    ws = [
        # C08_mp_label0_refuted
        ('sx_res SB (reachvpn_construct false 0 0 167772161 [mk_vroute [0] (RdAs 100 1) 167772160 8])',
         MpReachNLRI, {'afi_safi': (1, 128), 'nexthop': vnh,
                       'nlri': [{'label': [0], 'rd': '100:1', 'prefix': '10.0.0.0/8'}]}, False),
        ('sx_res sx_optbytes (reachlu_construct false 167772161 [mk_lroute [0] 3221225472 8])',
         MpReachNLRI, {'afi_safi': (1, 4), 'nexthop': '10.0.0.1', 'nlri': [{'label': [0], 'prefix': '192.0.0.0/8'}]}, True),
        # C08_mp_prefix_length_is_error: an exception on both sides
        ('sx_res SB (reachvpn_construct false 0 0 167772161 [mk_vroute [25] (RdAs 100 100) 167772160 40])',
         MpReachNLRI, {'afi_safi': (1, 128), 'nexthop': vnh, 'nlri': [v40]}, False),
        ('sx_res sx_optbytes (unreachvpn_construct false [mk_vroute [25] (RdAs 100 100) 167772160 33])',
         MpUnReachNLRI, {'afi_safi': (1, 128), 'withdraw': [dict(v40, prefix='10.0.0.0/33')]}, True),
        ('sx_res SB (reachvpn_construct true 0 0 1 [mk_vroute [25] (RdAs 100 100) (2 ^ 125) 129])',
         MpReachNLRI, {'afi_safi': (2, 128), 'nexthop': {'rd': '0:0', 'str': '::1'},
                       'nlri': [{'label': [25], 'rd': '100:100', 'prefix': '2000::/129'}]}, False),
        ('sx_res sx_optbytes (reachlu_construct false 167772161 [mk_lroute [25] 167772160 40])',
         MpReachNLRI, {'afi_safi': (1, 4), 'nexthop': '10.0.0.1', 'nlri': [l40]}, True),
        ('sx_res sx_optbytes (unreachlu_construct false [mk_lroute [25] 167772160 33])',
         MpUnReachNLRI, {'afi_safi': (1, 4), 'withdraw': [dict(l40, prefix='10.0.0.0/33')]}, True),
        ('sx_res sx_optbytes (reachlu_construct true 1 [mk_lroute [25] (2 ^ 125) 129])',
         MpReachNLRI, {'afi_safi': (2, 4), 'nexthop': '::1', 'nlri': [{'label': [25], 'prefix': '2000::/129'}]}, True),
        ('sx_res sx_optbytes (reachfs_construct None [mk_flow (Some (3227517696, 33)) None []])',
         MpReachNLRI, {'afi_safi': (1, 133), 'nexthop': '', 'nlri': [{1: '192.96.3.0/33'}]}, True),
        ('sx_res sx_optbytes (unreachfs_construct [mk_flow None (Some (3227517696, 255)) []])',
         MpUnReachNLRI, {'afi_safi': (1, 133), 'withdraw': [{2: '192.96.3.0/255'}]}, True),
        ('sx_res sx_optbytes (reachfs_construct None [mk_flow (Some (2 ^ 125, 32)) None []])',
         MpReachNLRI, {'afi_safi': (1, 133), 'nexthop': '', 'nlri': [{1: '2000::/32'}]}, True),
    ]
    rows, descr = [], []
    for expr, klass, value, optional in ws:
        try:
            v = klass.construct(value)
            impl = [0, (Bytes(v) if v is not None else None)] if optional or v is not None else [0, None]
        except Exception:
            impl = [2]
        rows.append('(%s, %s)' % (expr, coq_sx(impl)))
        descr.append((klass.__name__, value))
    text = 'Definition cases : list (sx * sx) := [\n%s\n].\nEval vm_compute in (mismatches cases).\n' % ';\n'.join(rows)
    (rc, out), = common.coq_eval_shards(ctx.prop, [text], imports=WITNESS_IMPORTS)
    idx = common.parse_nats(out)
    if rc != 0 or idx is None:
        return len(ws), [{'what': 'witness case file does not evaluate: %s' % common.first_error(out)}]
    return len(ws), [{'what': 'model and implementation differ on a witness of C08.v (refutation / error example): %s.construct(%r)'
                              % descr[i], 'input': repr(descr[i])} for i in idx]


PMSI_IMPORTS = 'From Coq Require Import ZArith.\nFrom YV Require Import lib.Base gen.Consts model.YExtCom model.YPmsi.\n'


def correspondence_pmsi(ctx):
    """model/YPmsi.v (the model the C08_pmsi_* theorems are about) vs PMSITunnel.construct / parse:
    field values on both sides of every width, every tunnel type, both identifier families, every
    evpn_overlay argument; parse on the constructed values, their truncations and other types/sizes"""
    import netaddr
    from yabgp.message.attribute.pmsitunnel import PMSITunnel
    from session import Bytes, coq_sx
    rng = ctx.rng
    leafs = [0, 1, 255, 256, -1]
    types = [6, 6, 6, 0, 1, 2, 3, 4, 5, 7, 255, 256]
    labels = [0, 1, 625, 2 ** 20 - 1, 2 ** 20, 2 ** 20 + 5, 2 ** 24 - 1, 2 ** 24, 2 ** 28 - 1, 2 ** 28, 2 ** 32 - 1,
              2 ** 32, -1, 60001]
    ids = ['192.168.10.10', '0.0.0.0', '255.255.255.255', '4.4.4.4', '::', '::1', '2001:db8::4', 'ffff::ffff',
           '::ffff:1.2.3.4', '0::4.4.4.4']
    ovs = [(False, 'OvOff'), (None, 'OvOff'), ({}, 'OvOff')]
    for evpn in (False, True):
        for ec in (False, True):
            for enc in (8, 9, 10, 0):
                d = {'evpn': evpn, 'encap_ec': ec}
                if ec:
                    d['encap_value'] = enc
                ovs.append((d, '(OvOn %s %d)' % ('true' if evpn and ec else 'false', enc)))
    cons = []
    for lf in leafs:
        for tt in types[:4] if lf else types:
            for lab in labels if lf in (0, 1) else labels[:3]:
                cons.append((lf, tt, lab, rng.choice(ids), rng.choice(ovs)))
    for tid in ids:
        for ov in ovs:
            cons.append((rng.choice([0, 1]), 6, rng.choice(labels), tid, ov))
    if not ctx.thorough:
        cons = cons[:40] + rng.sample(cons[40:], 260)
    rows, descr, values = [], [], []
    for (lf, tt, lab, tid, (ov, ovc)) in cons:
        a = netaddr.IPAddress(tid)
        val = {'mpls_label': [lab], 'tunnel_id': tid, 'tunnel_type': tt, 'leaf_info_required': lf}
        try:
            b = PMSITunnel.construct(val, ov)
            impl = Bytes(b) if b is not None else 2
            if b is not None:
                values.append(bytes(b)[3:])
        except Exception:
            impl = 2
        rows.append('(sx_pmsi_construct (pmsi_construct %s (mk_pmsi (%d)%%Z (%d)%%Z (%d)%%Z %s %d)), %s)'
                    % (ovc, lf, tt, lab, 'true' if a.version == 6 else 'false', int(a), coq_sx(impl)))
        descr.append(('construct', val, repr(ov)))
    # parse: constructed values, every truncation of some, other tunnel types, identifier sizes 0..17
    pv = list(dict.fromkeys(values))[:60]
    for v in list(pv[:6]):
        pv += [v[:k] for k in range(len(v))]
    for tt in range(0, 9):
        for n in (0, 1, 4, 5, 16, 17):
            pv.append(bytes([rng.randrange(256), tt]) + bytes(rng.randrange(256) for _ in range(3 + n)))
            pv.append(bytes([1, tt, 0xff, 0xff, 0xff]) + b'\xff' * n)
            pv.append(bytes([0, tt, 0, 0, 16]) + b'\x00' * n)
    for v in pv:
        for vni in (False, True):
            try:
                r = PMSITunnel.parse(v, vni)
                tid = r['tunnel_id']
                pid = None if tid is None else (0 if tid == 'not supported' else [int(netaddr.IPAddress(tid))])
                impl = [r['leaf_info_required'], r['tunnel_type'], r['mpls_label'][0], pid]
            except Exception:
                impl = 2
            rows.append('(sx_pmsi_parse (pmsi_parse %s %s), %s)' % ('true' if vni else 'false', coq_bytes(v), coq_sx(impl)))
            descr.append(('parse', v.hex(), vni))
    text = 'Definition cases : list (sx * sx) := [\n%s\n].\nEval vm_compute in (mismatches cases).\n' % ';\n'.join(rows)
    (rc, out), = common.coq_eval_shards(ctx.prop, [text], imports=PMSI_IMPORTS)
    idx = common.parse_nats(out)
    if rc != 0 or idx is None:
        return len(rows), [{'what': 'PMSI case file does not evaluate: %s' % common.first_error(out)}]
    return len(rows), [{'what': 'model/YPmsi.v and PMSITunnel differ: %r' % (descr[i],), 'input': repr(descr[i])} for i in idx]


def run(ctx):
    cases = generate(ctx)
    msgs, n_exc, n_none, exc_kinds = run_constructors(cases)
    walker_ok = ctx.coq_ok
    if not walker_ok:        # the walker itself does not depend on the proofs
        rc, _ = common.build(['spec/Walker.vo'])
        walker_ok = rc == 0
    mism, viol = [], []
    n_corr = 0
    n_wit = 0
    n_pmsi = 0
    if ctx.coq_ok:
        n_corr, mism = correspondence_small(ctx)
        n_wit, m2 = correspondence_witnesses(ctx)
        n_pmsi, m3 = correspondence_pmsi(ctx)
        mism = mism + m2 + m3
    bad, errors = ([], ['spec/Walker.v does not compile']) if not walker_ok else walker_invalid(ctx, cases, msgs)
    for e in errors:
        mism.append({'what': e})
    per_class = {}
    mf_classes = MUST_FAIL_CLASSES + ((ESI0_CLASS,) if getattr(generate, 'esi0_repaired', False) else ())
    must_fail = [(i, m) for (i, m) in msgs if cases[i][1] in mf_classes]
    for i, m in must_fail:        # repaired findings: a message instead of an error is the defect again
        kind, cls, inp = cases[i]
        viol.append({'what': 'constructor returned a message for an input that must be refused (input class %s): %s'
                             % (cls, (m.hex() if m is not None else 'not a byte string')[:160]),
                     'kind': kind, 'class': cls, 'input': inp, 'message': m.hex() if m is not None else None,
                     'known': None})
    for j in bad:
        i, m = msgs[j]
        kind, cls, inp = cases[i]
        kid = classify(kind, inp, m)
        per_class[cls] = per_class.get(cls, 0) + 1
        viol.append({'what': 'constructed %s message is not structurally valid (input class %s): %s'
                             % (kind.upper(), cls, (m.hex() if m is not None else 'not a byte string')[:160]),
                     'kind': kind, 'class': cls, 'input': inp, 'message': m.hex() if m is not None else None,
                     'known': kid})
    # one representative per known id / class first, so the replay file shows distinct inputs
    viol.sort(key=lambda v: (v['known'] is not None, v['class'], len(json.dumps(v['input']))))
    classes = {}
    for (kind, cls, _) in cases:
        classes[cls] = classes.get(cls, 0) + 1
    distinct = len({(cases[i][0], json.dumps(cases[i][2], sort_keys=True)) for (i, m) in msgs if m is not None})
    return {
        'evaluations': len(cases) + n_corr + n_wit + n_pmsi, 'distinct': distinct,
        'rule': 'constructor inputs: exhaustive prefix lengths (0..32, 0..128) for every family, every attribute '
                'at its length/width boundaries (255/256 octets, 2^16, 2^32), both AS-number modes crossed with AS '
                'numbers on both sides of 65535 and 2^32 for every attribute with an AS field (AGGREGATOR, AS_PATH, '
                'AS4_*, extended communities), capability subsets, every SR-policy '
                'sub-TLV and segment kind, flowspec components/operators, EVPN route and ESI types, seeded '
                'random attribute combinations, and free text: every string value of one representative input per '
                'constructor replaced by legal-but-unusual text (empty, blank, NUL, non-ASCII, non-ASCII digits, '
                'lone surrogates, 255/256 and 65536 characters, one group fewer/more) and SR policy names whose '
                'UTF-8 size differs from their character count around 255/256; a case is non-trivial when the constructor returned octets (those '
                'are walked by valid_msg_with in Coq); distinct by (constructor, input)',
        'samples': [[k, c, i] for (k, c, i) in (cases[:2] + cases[len(cases) // 2:len(cases) // 2 + 2])],
        'mismatches': mism, 'violations': viol,
        'extra': {'constructor_calls': len(cases), 'messages_walked': len(msgs), 'raised_exception': n_exc,
                  'returned_none': n_none, 'exception_types': exc_kinds, 'input_classes': classes,
                  'invalid_by_class': per_class, 'correspondence_cases_small': n_corr,
                  'correspondence_refutation_witnesses': n_wit, 'correspondence_cases_pmsi': n_pmsi,
                  'must_fail_inputs': sum(1 for (_, c, _) in cases if c in mf_classes),
                  'pending_inputs_skipped': getattr(generate, 'pending_skipped', 0),
                  'must_fail_inputs_accepted': len(must_fail),
                  'free_text': {'string_fields_mutated': getattr(gen_text, 'leaves', 0),
                                'unusual_texts': len(UNUSUAL_TEXT),
                                'policy_names': len(POLICY_NAMES),
                                'policy_names_non_ascii': sum(1 for n in POLICY_NAMES if any(ord(c) > 127 for c in n)),
                                'cases': sum(1 for (_, c, _) in cases if c.startswith('text.')),
                                'constructed': sum(1 for (i, m) in msgs if cases[i][1].startswith('text.'))},
                  'max_message_octets': max([len(m) for (_, m) in msgs if m] or [0])},
    }


def replay(ctx, obj):
    v = obj.get('violation', obj)
    kind, inp = v['kind'], v['input']
    try:
        m = construct(kind, inp)
    except Exception as e:
        print('constructor raised %s: %s (an error is allowed by C08)' % (type(e).__name__, e))
        return 0
    if m is None:
        print('constructor returned no message')
        return 0
    print('%s %s -> %s' % (kind, json.dumps(inp)[:300], m.hex()))
    rc, _ = common.build(['spec/Walker.vo'])
    text = ('Eval vm_compute in (valid_msg_with %s %s).\n' % (walker_cfg(kind, inp), coq_bytes(m)))
    (rc, out), = common.coq_eval_shards('C08replay', [text], imports=IMPORTS)
    ok = '= true' in out
    print('valid_msg_with = %s' % ('true' if ok else 'false'))
    return 0 if ok else 1
