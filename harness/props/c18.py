"""C18 — message statistics equal what crossed the wire."""
import env  # noqa: F401
import session
import explore
from props import session_common as sc
from props.c04 import ref_deframe

COQ_TARGETS = ['props/C18.vo', 'model/YSessionSx.vo']
TRUSTED = sc.TRUSTED
ASSUMPTIONS = sc.ASSUMPTIONS
MIN_LEN = {1: 29, 2: 23, 3: 21, 4: 19, 5: 23, 128: 23}
IDX = {1: 0, 3: 1, 2: 2, 4: 3, 5: 4, 128: 4}

MSGS = ['open_ok', 'open_hold1', 'open_badver', 'open_wrongas', 'open_short', 'keepalive', 'keepalive_body',
        'update_ok', 'update_bad', 'update_garbage', 'update_raise', 'route_refresh_long', 'notif_version', 'notif_cease', 'notif_short',
        'route_refresh', 'route_refresh_cisco', 'route_refresh_short', 'bad_marker', 'bad_len_zero', 'unknown_type']


def audit(d, delivered):
    """per connection: counters vs. the simulated transport's write log / delivered frames.
    returns list of (kind, detail)"""
    out = []
    order = ['Opens', 'Notifications', 'Updates', 'Keepalives', 'RouteRefresh']
    for c in d.sim.connectors:
        p = c.protocol
        if p is None:
            continue
        sent = [0] * 5
        for _, data in c.transport.writes:
            ty = data[18]
            if ty in IDX:
                sent[IDX[ty]] += 1
        got = [p.msg_sent_stat[k] for k in order]
        if got != sent:
            out.append(('sent', {'conn': c.cid, 'counters': got, 'wire': sent}))
        recv = [0] * 5
        stream = b''.join(delivered.get(c.cid, []))
        frames, err, rest = ref_deframe(stream)
        # frames processed: all frames the agent dispatched (it stops after it closed)
        for ty, body in frames[:d.frames_seen.get(c.cid, 0)]:
            if ty in IDX and 19 + len(body) >= MIN_LEN[ty]:
                recv[IDX[ty]] += 1
        gotr = [p.msg_recv_stat[k] for k in order]
        if gotr != recv:
            out.append(('recv', {'conn': c.cid, 'counters': gotr, 'frames': recv,
                                 'stream': stream.hex()[:400]}))
    return out


def classify(kind, detail, d, delivered):
    """map a counter/wire difference to a known finding id, or None"""
    if kind != 'recv':
        return None
    c = detail['conn']
    stream = b''.join(delivered.get(c, []))
    frames, err, rest = ref_deframe(stream)
    exp = [0] * 5
    for ty, body in frames[:d.frames_seen.get(c, 0)]:
        if ty not in IDX:
            continue
        if ty == 1:
            exp[0] += 1                       # counted whatever the length
        elif ty == 2:
            cls = d.tables['upd4'].get(bytes(body)) or d.tables['upd2'].get(bytes(body))
            if cls in ('UpOk', 'UpSubErr'):
                exp[2] += 1
        elif ty == 3:
            exp[1] += 1 if len(body) >= 2 else 0
        elif ty == 4:
            exp[3] += 1
        else:
            exp[4] += 1 if len(body) == 4 else 0
    if exp != detail['counters']:
        return None
    ids = set()
    for ty, body in frames[:d.frames_seen.get(c, 0)]:
        if ty == 1 and 19 + len(body) < 29:
            ids.add('C18-short-open-counted')
        if ty == 2 and 19 + len(body) >= 23 and \
                (d.tables['upd4'].get(bytes(body)) or d.tables['upd2'].get(bytes(body))) == 'UpExc':
            ids.add('C18-update-decode-exception-not-counted')
        if ty in (5, 128) and len(body) != 4 and 19 + len(body) >= 23:
            ids.add('C18-rr-length-not-counted')
    return sorted(ids)[0] if len(ids) == 1 else ('+'.join(sorted(ids)) if ids else None)


def run_one(kw, events):
    """every data event of these traces carries whole messages and at most the LAST message of a
    chunk makes the agent close, so the frames dispatched on a connection are exactly the
    complete frames of what was delivered to it while it was being read"""
    d = session.Driver(**kw)
    d.frames_seen = {}
    delivered = {}
    for e in events:
        if e[0] == 'data' and d.enabled(e):
            delivered.setdefault(e[1], []).append(bytes(e[2]))
        d.apply(e)
    for cid, chunks in delivered.items():
        frames, err, rest = ref_deframe(b''.join(chunks))
        d.frames_seen[cid] = len(frames)
    return d, delivered


def run(ctx):
    kw = {}
    depth = 5 if ctx.thorough else 4
    leaves, edges, mism, stats = sc.explore_compare(ctx, kw, MSGS, depth)
    viol = []
    n = 0
    samples = []
    seen_known = {}
    # extra traces with REST sends and longer sessions
    M = sc.ALL_MSGS
    upd = {'attr': {1: 0, 2: [], 3: '10.0.0.1', 5: 100}, 'nlri': ['10.1.0.0/16'], 'withdraw': []}
    extra = [
        list(sc.EST_PREFIX) + [('sendupd', upd), ('sendbin', M['update_ok']), ('fire', 'TKeepAlive'),
                               ('data', 0, M['update_ok'] + M['keepalive'] + M['route_refresh']),
                               ('sendupd', {'attr': {}, 'nlri': ['bogus'], 'withdraw': []}),
                               ('fire', 'TKeepAlive'), ('data', 0, M['notif_cease'])],
        list(sc.EST_PREFIX) + [('data', 0, M['update_ok']), ('fire', 'TKeepAlive'), ('fire', 'THold')],
        list(sc.EST_PREFIX) + [('data', 0, M['route_refresh_short'] + M['update_garbage'] + M['keepalive_body'])],
        [('boot',), ('connok', 0), ('data', 0, M['open_short'])],
        list(sc.EST_PREFIX) + [('stop',), ('lost', 0), ('start',), ('connok', 1), ('data', 1, M['open_ok']),
                               ('data', 1, M['keepalive']), ('sendbin', M['update_ok'])],
    ]
    # segmented delivery: the counters must follow the frames of the delivered stream whatever the TCP segmentation
    # (a frame split over segments followed by shorter messages delivered on their own, byte-at-a-time, random cuts);
    # every prefix of such a trace is audited, not only its end
    from props.c04 import cuts_of
    seg_paths = []
    streams = [M['update_ok'] + M['keepalive'] + M['keepalive'],
               M['keepalive'] + M['update_ok'] + M['route_refresh'] + M['keepalive'] + M['update_bad'] + M['keepalive'],
               M['route_refresh'] + M['update_ok'] + M['notif_cease'],
               # UPDATEs of other families (flow specification announce/withdraw, VPNv4, IPv6 unicast)
               M['update_flow4'] + M['keepalive'] + M['update_vpnv4'] + M['update_flow4_wd'] + M['update_v6'] + M['route_refresh_cisco']]
    for stream in streams:
        cs = cuts_of(stream, ctx.rng, ctx.thorough)
        if not ctx.thorough:
            cs = cs[:1] + cs[1:60:3] + cs[-4:]
        for chunks in cs:
            whole = list(sc.EST_PREFIX) + [('data', 0, c) for c in chunks if c]
            # the frame split in two, then each following message in a segment of its own
            seg_paths.append(whole)
        first = len(M['update_ok'])
        for cut in (1, 18, 19, 20, first // 2, first - 1):
            if stream.startswith(M['update_ok']):
                rest = stream[first:]
                tail = [rest[i:i + 19] for i in range(0, len(rest), 19)]
                seg_paths.append(list(sc.EST_PREFIX) + [('data', 0, stream[:cut]), ('data', 0, stream[cut:first])] +
                                 [('data', 0, t) for t in tail])
    prefixes = []
    for p in seg_paths:
        k0 = len(sc.EST_PREFIX)
        prefixes += [p[:k] for k in range(k0 + 1, len(p) + 1)]
    all_paths = [list(p) for (p, _, _, _) in leaves] + extra + prefixes
    for path in all_paths:
        d, delivered = run_one(kw, path)
        n += 1
        for kind, detail in audit(d, delivered):
            kid = classify(kind, detail, d, delivered)
            v = {'what': '%s counters differ from the wire: %r' % (kind, detail),
                 'events': [sc.name_of(e) for e in path], 'known': kid}
            if kid and kid in seen_known:
                continue
            if kid:
                seen_known[kid] = 1
            viol.append(v)
        if len(samples) < 4 and len(path) >= depth:
            samples.append([sc.name_of(e) for e in path])
    runs, mism2 = sc.compare_traces(ctx, [(kw, p) for p in extra])
    return {'evaluations': n + len(extra), 'distinct': stats['abstract_states'],
            'rule': 'every path of the breadth-first exploration (depth %d, de-duplicated on the abstract state) over the '
                    'alphabet incl. error paths, plus traces with REST sends and segmented deliveries (every prefix); after each path every counter of every '
                    'connection is compared with a count over the simulated transport write log and the delivered frames '
                    '(independent deframer); distinct = abstract states reached' % depth,
            'samples': samples, 'mismatches': mism + mism2, 'violations': viol, 'extra': stats}


def replay(ctx, obj):
    print(obj.get('violation', obj))
    return 0
