"""C03 — hold and keepalive timers keep exactly the negotiated contract."""
from fractions import Fraction

import env  # noqa: F401
import session
import explore
from props import session_common as sc

COQ_TARGETS = ['props/C03.vo', 'model/YSessionSx.vo']
TRUSTED = sc.TRUSTED
ASSUMPTIONS = sc.ASSUMPTIONS + ['timers are fired by the driver at their deadline (time never skips a pending timer); '
                                'same-instant expiry/arrival orders are both explored']
M = sc.ALL_MSGS
HOLDS = [0, 3, 4, 5, 9, 20, 30, 90, 180, 65535]


def open_with_hold(h, remote_as=65002):
    return explore.frame(1, explore.open_body(asn=remote_as, hold=h, as4=remote_as))


def timers_due(d):
    nd = d.sim.next_due()
    out = []
    if nd is None:
        return nd, out
    for tname, _ in session.TIMER_ATTR:
        dc = d.timer_dc(tname)
        if dc is not None and dc.time == nd:
            out.append(tname)
    return nd, out


def run_schedule(kw, proposed, arrivals, timer_first, kinds, ka_delay=0):
    """arrivals: increasing absolute times (Fractions, seconds) after Established at which the peer sends
    kinds[i] ('keepalive' | 'update_ok' | 'update_bad').  Timers fire when due.  Returns (events, log, driver)
    log entries: (time, what)"""
    d = session.Driver(**kw)
    events = []
    log = []

    def do(e):
        events.append(e)
        r = d.apply(e)
        for o in r[1]:
            if o[0] == 1:
                log.append((d.sim.now, 'write', o[2][0], o[2][1:3] if o[2][0] == 3 else None))
            elif o[0] == 2:
                log.append((d.sim.now, 'lose', None, None))
        return r
    for e in (('boot',), ('connok', 0), ('data', 0, open_with_hold(proposed))):
        do(e)
    if ka_delay and d.state()[0] == 5:
        # the peer's first KEEPALIVE comes a little later than its OPEN (but before anything is due)
        nd = d.sim.next_due()
        if nd is None or d.sim.now + Fraction(ka_delay, 3) < nd:
            do(('advance', ka_delay))
    do(('data', 0, M['keepalive']))
    t0 = d.sim.now
    st = d.state()
    info = {'state': st[0], 'hold': st[1], 'ka3': st[2], 't0': t0, 'log0': len(log)}
    idx = 0
    horizon = (arrivals[-1] if arrivals else Fraction(0)) + 2 * max(kw.get('hold_time', 180), 10) + 5
    guard = 0
    while guard < 4000:
        guard += 1
        if d.state()[0] != 6:
            break
        nd, due = timers_due(d)
        nxt_arr = t0 + arrivals[idx] if idx < len(arrivals) else None
        if nxt_arr is None and (nd is None or nd > t0 + horizon):
            if nd is None:
                do(('advance', int(horizon * 3)))     # H = 0: silence
            break
        if nxt_arr is not None and (nd is None or nxt_arr < nd or (nxt_arr == nd and not timer_first)):
            gap = nxt_arr - d.sim.now
            if gap > 0:
                do(('advance', int(gap * 3)))
            do(('data', 0, M[kinds[idx % len(kinds)]]))
            idx += 1
        else:
            # fire the due timers (all same-instant ones, hold timer first or last per flag)
            order = sorted(due, key=lambda t: (t != 'THold') if timer_first else (t == 'THold'))
            do(('fire', order[0]))
    info['final_state'] = d.state()[0]
    info['end'] = d.sim.now
    return events, log, d, info


def check_contract(kw, proposed, arrivals, kinds, timer_first, events, log, d, info):
    """the property on the implementation's virtual-time log"""
    out = []
    cfg_h = kw.get('hold_time', 180)
    H = min(cfg_h, proposed)
    if info['state'] != 6:
        if not (H != 0 and H < 3):
            out.append('session did not establish with hold %d/%d' % (cfg_h, proposed))
        return out
    if info['hold'] != H:
        out.append('negotiated hold %r, expected min(%d,%d)' % (info['hold'], cfg_h, proposed))
    t0 = info['t0']
    log = log[info['log0']:]
    kas = [t for (t, w, ty, x) in log if w == 'write' and ty == 4]
    notifs = [(t, x) for (t, w, ty, x) in log if w == 'write' and ty == 3]
    loses = [t for (t, w, ty, x) in log if w == 'lose']
    arr = [t0 + a for a in arrivals]
    if H == 0:
        if kas or notifs or loses or info['final_state'] != 6:
            out.append('H=0: periodic keepalive / expiry seen: %r %r' % (kas, notifs))
        return out
    # expected expiry: first instant with no arrival for H seconds (arrivals strictly before the deadline,
    # or at it when the arrival is processed first)
    last = t0
    exp = None
    for a in arr:
        dl = last + H
        if a < dl or (a == dl and not timer_first):
            last = a
        else:
            exp = dl
            break
    if exp is None:
        exp = last + H
    if info['final_state'] == 6 and info['end'] >= exp:
        out.append('session still up at %s although nothing arrived since %s (H=%d)' % (info['end'], last, H))
    if notifs:
        if notifs[0][1] != [4, 0]:
            out.append('expiry NOTIFICATION is %r' % (notifs[0][1],))
        if notifs[0][0] != exp:
            out.append('Hold Timer Expired sent at %s, expected exactly %s' % (notifs[0][0], exp))
        if not loses or loses[0] != notifs[0][0]:
            out.append('connection not closed at the expiry instant')
    # keepalive spacing: at least every H/3 while in session
    end = notifs[0][0] if notifs else info['end']
    prev = t0
    for t in kas + [end]:
        if t - prev > Fraction(H, 3):
            out.append('no KEEPALIVE between %s and %s (H/3 = %s)' % (prev, t, Fraction(H, 3)))
            break
        prev = t
    return out


def run(ctx):
    rng = ctx.rng
    viol, traces, samples = [], [], []
    n = 0
    distinct = set()
    cfgs = HOLDS if ctx.thorough else [0, 3, 9, 20, 180]
    props = HOLDS if ctx.thorough else [0, 3, 4, 5, 90, 65535]
    for cfg_h in cfgs:
        for prop in props:
            kw = {'hold_time': cfg_h}
            H = min(cfg_h, prop)
            scheds = []
            if H == 0:
                scheds = [[], [Fraction(50)], [Fraction(1), Fraction(2)]]
            else:
                third = Fraction(1, 3)
                g_lo, g_eq, g_hi = H - third, Fraction(H), H + third
                scheds = [[], [g_lo], [g_eq], [g_hi], [g_lo, 2 * g_lo, 3 * g_lo], [g_lo, g_lo + g_eq],
                          [g_lo, g_lo + g_hi], [Fraction(1), Fraction(1), Fraction(1)],          # burst
                          [Fraction(2 * H, 3) * i for i in range(1, (50 if ctx.thorough else 12))]]   # long run
                if H > 3000:
                    scheds = scheds[:6]
            for arrivals in scheds:
                for timer_first in (True, False):
                    for kinds in (['keepalive'], ['update_ok', 'keepalive', 'update_bad'], ['update_eor', 'update_withdraw'],
                                  ['update_flow4', 'update_vpnv4'], ['update_flow4_wd', 'update_v6']):
                        if kinds[0] != 'keepalive' and (not arrivals or len(arrivals) > 12):
                            continue
                        for ka_delay in ((0, 2) if len(arrivals) <= 3 else (0,)):
                            events, log, d, info = run_schedule(kw, prop, arrivals, timer_first, kinds, ka_delay)
                            n += 1
                            distinct.add((H, len(arrivals), timer_first, tuple(kinds), ka_delay, info['final_state']))
                            arr = [a + Fraction(ka_delay, 3) for a in arrivals] if False else arrivals
                            for w in check_contract(kw, prop, arrivals, kinds, timer_first, events, log, d, info):
                                viol.append({'what': w, 'config_hold': cfg_h, 'proposed': prop,
                                             'arrivals_s': [str(a) for a in arrivals], 'timer_first': timer_first,
                                             'kinds': kinds, 'first_keepalive_delay_thirds': ka_delay, 'known': None})
                            if len(events) <= 60 and (ctx.thorough or rng.random() < 0.5):
                                traces.append((kw, events))
                            if len(samples) < 5 and arrivals and H:
                                samples.append({'config_hold': cfg_h, 'proposed': prop,
                                                'arrivals_s': [str(a) for a in arrivals[:4]], 'timer_first': timer_first,
                                                'events': len(events), 'final_state': info['final_state']})
    # OpenSent: the fixed 4-minute limit
    d = session.Driver()
    d.apply(('boot',))
    d.apply(('connok', 0))
    dc = d.timer_dc('THold')
    if dc is None or dc.time - d.sim.now != 240:
        viol.append({'what': 'OpenSent hold limit is %r, expected 240 s' % (dc and dc.time - d.sim.now), 'known': None})
    traces.append(({}, [('boot',), ('connok', 0), ('fire', 'THold')]))
    if not ctx.thorough and len(traces) > 160:
        traces = rng.sample(traces, 160)
    runs, mism = sc.compare_traces(ctx, traces, per_shard=12)
    return {'evaluations': n + len(traces), 'distinct': len(distinct),
            'rule': 'configured x proposed hold times from {0,3,4,9,30,90,180,65535} (quick: a subset); arrival schedules '
                    'with gaps just below / at / just above H, bursts, long runs, KEEPALIVE and UPDATE arrivals, both '
                    'same-instant orders of expiry and arrival; the contract is checked on virtual-time stamps of the '
                    'implementation; distinct = (H, schedule shape, order, kinds, outcome)',
            'samples': samples, 'mismatches': mism, 'violations': viol,
            'extra': {'schedules_run': n, 'model_traces': len(traces)}}


def replay(ctx, obj):
    print(obj.get('violation', obj))
    return 0
