"""C07 families 2+3: label stacks, route distinguishers, VPNv4 and VPNv6 (MP_REACH and MP_UNREACH)."""
import netaddr

from props.c07 import Family, ip6, ip4, caddr, mask, coq_list, coq_bytes, size_targets, fill_sizes

LABELS = [0, 1, 3, 15, 16, 2 ** 20 - 1]
WITHDRAW_LABEL = 524288


def rd_text(rd):
    if rd[0] == 'ip':
        return '%s:%d' % (ip4(rd[1]), rd[2])
    return '%d:%d' % (rd[1], rd[2])


def crd(text):
    """route distinguisher text -> canonical [kind, a, b]; [3] for str(bytes) of an unknown type"""
    if text.startswith("b'") or text.startswith('b"') or ':' not in text:
        return [3]
    a, b = text.rsplit(':', 1)
    if '.' in a:
        return [1, int(netaddr.IPAddress(a)), int(b)]
    return [0, int(a), int(b)]


def coq_rd(rd):
    return '(%s %d %d)' % ('RdIp' if rd[0] == 'ip' else 'RdAs', rd[1], rd[2])


def rd_expected(rd):
    return [1 if rd[0] == 'ip' else 0, rd[1], rd[2]]


def rd_boundaries():
    out = []
    for asn in (0, 1, 65535):
        for an in (0, 1, 2 ** 32 - 1):
            out.append(('as', asn, an))          # type 0
    for asn in (65536, 2 ** 32 - 1):
        for an in (0, 65535):
            out.append(('as', asn, an))          # type 2
    for ip in (0, 0x01020304, 2 ** 32 - 1):
        for an in (0, 65535):
            out.append(('ip', ip, an))           # type 1
    return out


def rnd_rd(rng):
    k = rng.random()
    if k < .4:
        return ('as', rng.choice([0, 1, 100, 65535, rng.randrange(65536)]),
                rng.choice([0, 1, 2 ** 32 - 1, rng.getrandbits(32)]))
    if k < .7:
        return ('as', rng.choice([65536, 2 ** 32 - 1, rng.randrange(65536, 2 ** 32)]),
                rng.choice([0, 65535, rng.randrange(65536)]))
    return ('ip', rng.choice([0, 2 ** 32 - 1, rng.getrandbits(32)]), rng.choice([0, 65535, rng.randrange(65536)]))


def render_low(a):
    return [4, a] if a < 2 ** 32 else [6, a]


def cplen(text):
    n = int(text)
    return 1000 - n if n < 0 else n


class Vpn(Family):
    def __init__(self, v6):
        self.v6 = v6
        self.bits = 128 if v6 else 32
        self.afi = 2 if v6 else 1
        self.name = 'vpnv6' if v6 else 'vpnv4'
        self.imports = 'From YV Require Import lib.Base gen.Consts model.YMp model.YLabel model.YVpn.\n'
        self.K_LABEL0 = 'C07-%s-label-0-without-bottom-of-stack' % self.name
        self.K_MULTI = 'C07-%s-label-stack-deeper-than-one' % self.name
        self.K_LOW = 'C07-vpnv6-low-address-as-ipv4'

    def text(self, a):
        return ip6(a) if self.v6 else ip4(a)

    def gen(self, ctx):
        rng = ctx.rng
        bits = self.bits
        cases = []

        def rnd_addr(l, low=False):
            a = rng.getrandbits(bits) | (1 << (bits - 1))
            if low and self.v6:
                a = rng.getrandbits(32)
            return mask(a, l, bits)

        def rnd_route(l=None, labels=None, rd=None, low=False):
            if l is None:
                l = rng.choice([0, 1, 7, 8, 9, 15, 16, 17, 23, 24, 25, bits - 1, bits, rng.randrange(bits + 1)])
            if labels is None:
                labels = [rng.choice(LABELS[1:] + [rng.randrange(1, 2 ** 20)])]
            return (labels, rd or rnd_rd(rng), rnd_addr(l, low), l)

        def rnd_nh(nh6=None):
            """(RD asn, RD an, address, address is IPv6).  The next-hop version is crossed with the family:
            netaddr packs the ADDRESS (RD + 4 or RD + 16 octets, next-hop length 12 or 24) whatever the
            routes are - VPNv4 routes with an IPv6 next hop are RFC 8950 / the ext_nexthop capability"""
            if nh6 is None:
                nh6 = rng.random() < .5
            nb = 128 if nh6 else 32
            ip = rng.choice([rng.getrandbits(nb) | 1 << (nb - 1), (0xffff << 32 | rng.getrandbits(32)) if nh6
                             else rng.getrandbits(32), 2 ** nb - 1])
            return (rng.choice([0, 0, 0, 65535, 100]), rng.choice([0, 0, 0, 1, 2 ** 32 - 1]), ip, nh6)

        def add(kind, routes, nh=None):
            cls = []
            if kind == 'reach':
                if any(len(r[0]) > 1 for r in routes):
                    cls.append('label-stack-deeper-than-one')
                if any(r[0][-1] == 0 for r in routes):
                    cls.append('last-label-0')
            else:
                routes = [([WITHDRAW_LABEL], r[1], r[2], r[3]) for r in routes]
            if (self.v6 and any(r[2] < 2 ** 32 for r in routes)) or \
                    (self.v6 and nh is not None and nh[3] and nh[2] < 2 ** 32):
                cls.append('address-below-2^32')
            cases.append({'fam': self.name, 'kind': kind, 'v': {'routes': routes, 'nh': nh}, 'cls': cls})

        # every prefix length
        for l in range(bits + 1):
            add('reach', [rnd_route(l)], rnd_nh())
            if ctx.thorough or l % 3 == 0 or l in (1, bits - 1, bits):
                add('unreach', [rnd_route(l)])
            if self.v6 and (ctx.thorough or l % 16 == 0 or l > 120):
                add('reach', [rnd_route(l, low=True)], rnd_nh())
        # every label value x a few lengths; label stacks
        for lab in LABELS:
            for l in (0, 8, 20, bits):
                add('reach', [rnd_route(l, [lab])], rnd_nh())
            add('reach', [rnd_route(24, [lab, 17])], rnd_nh())
            add('reach', [rnd_route(24, [17, lab])], rnd_nh())
        add('reach', [rnd_route(24, [16, 17, 18])], rnd_nh())
        # RD types at field boundaries
        for rd in rd_boundaries():
            add('reach', [rnd_route(rng.choice([0, 17, 24, bits]), None, rd)], rnd_nh())
            add('unreach', [rnd_route(rng.choice([0, 17, 24, bits]), None, rd)])
        # next-hop boundaries, both address versions on this family (an IPv6 next hop below 2^32 is the
        # known low-address class and is only generated for the IPv6 family, whose known finding names it)
        for nh in ((0, 0, 0, False), (65535, 2 ** 32 - 1, 2 ** 32 - 1, False), (0, 0, 1, False), (0, 0, 2 ** 31, False),
                   (65535, 2 ** 32 - 1, 2 ** 128 - 1, True), (0, 0, 2 ** 32, True), (100, 1, 0x20010db8 << 96 | 1, True),
                   (0, 0, 0xfe80 << 112 | 1, True), (0, 0, 0xffff << 32 | 0xac10040c, True)) + \
                (((0, 0, 0, True), (0, 0, 2 ** 32 - 1, True)) if self.v6 else ()):
            add('reach', [rnd_route()], nh)
            add('reach', [rnd_route(), rnd_route()], nh)
        for l in (0, 1, 8, bits - 1, bits):
            for nh6 in (False, True):
                add('reach', [rnd_route(l)], rnd_nh(nh6))
        # several routes per attribute
        for _ in range(300 if ctx.thorough else 40):
            n = rng.choice([2, 2, 3, 5, 8])
            rs = []
            for _ in range(n):
                k = rng.random()
                rs.append(rnd_route(None, [0] if k < .04 else [rng.choice(LABELS), 99] if k < .08 else None,
                                    None, low=rng.random() < .1))
            add(rng.choice(['reach', 'reach', 'unreach']), rs, rnd_nh())
        # ---- encoded-size boundaries: attribute value length (a route with one label takes
        # 1 + 3 + 8 + ceil(l/8) octets; l >= 1)
        for target, ok in size_targets(ctx):
            for kind in ('reach', 'unreach'):
                room = target - (3 if kind == 'unreach' else 5 + 8 + bits // 8)
                rs = [rnd_route(rng.randrange(8 * (k - 13) + 1, 8 * (k - 12) + 1))
                      for k in fill_sizes(room, range(13, 13 + bits // 8), rng)]
                add(kind, rs, rnd_nh(self.v6) if kind == 'reach' else None)     # the size arithmetic above assumes this next hop
                cases[-1]['huge'] = target > 60000
                if not ok:
                    cases[-1]['unencodable'] = 'attribute value of %d octets' % target
        add('reach', [], rnd_nh())
        c = {'fam': self.name, 'kind': 'unreach', 'v': {'routes': [], 'nh': None}, 'cls': [], 'empty': True}
        cases.append(c)
        return cases

    def impl_value(self, case):
        v = case['v']
        nl = [{'label': list(r[0]), 'rd': rd_text(r[1]), 'prefix': '%s/%d' % (self.text(r[2]), r[3])}
              for r in v['routes']]
        if case['kind'] == 'unreach':
            return {'afi_safi': (self.afi, 128), 'withdraw': nl}
        asn, an, ip, nh6 = v['nh']
        return {'afi_safi': (self.afi, 128), 'nexthop': {'rd': '%d:%d' % (asn, an), 'str': ip6(ip) if nh6 else ip4(ip)},
                'nlri': nl}

    def coq_routes(self, rs):
        return coq_list(rs, lambda r: 'mk_vroute %s %s %d %d' % (coq_list(r[0]), coq_rd(r[1]), r[2], r[3]))

    def coq_construct(self, case):
        v = case['v']
        b = 'true' if self.v6 else 'false'
        if case['kind'] == 'reach':
            asn, an, ip, nh6 = v['nh']
            return 'sx_res SB (reachvpn_construct_x %s %s %d %d %d %s)' % (
                b, 'true' if nh6 else 'false', asn, an, ip, self.coq_routes(v['routes']))
        return 'sx_res sx_optbytes (unreachvpn_construct %s %s)' % (b, self.coq_routes(v['routes']))

    def coq_parse(self, case, octets):
        b = 'true' if self.v6 else 'false'
        if case['kind'] == 'reach':
            return 'sx_res sx_reachvpn (reachvpn_parse %s %s)' % (b, coq_bytes(octets))
        return 'sx_res (sx_list sx_proute) (unreachvpn_parse %s %s)' % (b, coq_bytes(octets))

    @staticmethod
    def canon_route(x):
        a, l = x['prefix'].split('/')
        return [list(x['label']), crd(x['rd']), caddr(a), cplen(l)]

    def canon(self, case, p):
        assert tuple(p['afi_safi']) == (self.afi, 128)
        if case['kind'] == 'reach':
            return [crd(p['nexthop']['rd']), caddr(p['nexthop']['str']), [self.canon_route(x) for x in p['nlri']]]
        return [self.canon_route(x) for x in p['withdraw']]

    def expected(self, case, render=None):
        ver = 6 if self.v6 else 4
        render = render or (lambda a: [ver, a])
        v = case['v']
        rs = [[list(r[0]), rd_expected(r[1]), render(r[2]), r[3]] for r in v['routes']]
        if case['kind'] == 'unreach':
            return rs
        asn, an, ip, nh6 = v['nh']
        nhr = [4, ip] if not nh6 else (render_low(ip) if render is render_low else [6, ip])
        return [[0, asn, an], nhr, rs]

    def classify(self, case, stage, obs):
        cls = case['cls']
        if stage in ('differs', 'parse-exc'):
            # the label-stack classes are recorded with the coarse behaviour "wrong labels / RD / prefix or a
            # decoding exception"; the exact behaviour is pinned by the model (correspondence)
            if 'label-stack-deeper-than-one' in cls:
                return self.K_MULTI
            if 'last-label-0' in cls:
                return self.K_LABEL0
        if stage == 'differs' and 'address-below-2^32' in cls and obs == self.expected(case, render_low):
            return self.K_LOW
        return None


FAMILIES = [Vpn(False), Vpn(True)]
