"""C06 - UPDATE round trip, IPv4 unicast + the twelve standard attributes.

Abstract values (what the generator produces, what the Coq model takes, what the decoder's
output is canonicalised to):
  prefix      (address:int, length:int)          text <-> integer via netaddr
  attribute   (type_code, value) with value one of
      ('num', n) ('path', [(seg_type, [asn..])..]) ('empty',) ('pair', asn, addr)
      ('nums', [addr..]) ('comms', [('wk', v) | ('pair', hi, lo)..])
      ('exts', [(code, [field..])..]) ('large', [[n..]..]) ('hex', bytes)
  message     {'withdraw': [prefix], 'attrs': [(tc, value)], 'nlri': [prefix]}
"""
import ast
import struct

import env  # noqa: F401  (stubs + /repo on sys.path)
import common
import netaddr

COQ_TARGETS = ['props/C06.vo']
TRUSTED = ['netaddr text<->integer conversion of IPv4 addresses/prefixes and MACs; Python struct module',
           'canonicalisation in harness/props/c06.py: community / extended-community text -> tagged values '
           '(names through yabgp WELL_KNOW_COMMUNITY_*, BGP_EXT_COM_STR_DICT), exceptions -> '
           '{value, NotificationSent(code,sub), other exception}']
ASSUMPTIONS = ['model/YPrefix4.v, YAttr.v, YUpdate.v are hand-written and tied to yabgp/message/update.py and '
               'yabgp/message/attribute/*.py by the correspondence run of this check (construct and parse, '
               'valid and malformed inputs)',
               'the models describe the code with the fix: commits applied (C06: /0 prefix, withdraw+attributes, unsigned '
               'large community, well-known names; others: AS_PATH segment type check, LARGE_COMMUNITY non-empty multiple of 12, '
               'traffic-action decode)',
               'not modelled (never fed): MP_REACH/MP_UNREACH/PMSI/LINK_STATE/PREFIX_SID decoders, extended '
               'communities traffic-rate (float), traffic-action/color-xx construction, IPv6 addresses '
               'in AGGREGATOR/ORIGINATOR_ID/CLUSTER_LIST']
IMPORTS = 'From YV Require Import lib.Base gen.Consts model.YMsg model.YPrefix4 model.YAttr model.YUpdate.\n'

TWO32 = 1 << 32
INTS = [0, 1, 1 << 15, (1 << 16) - 1, 1 << 16, 1 << 31, TWO32 - 1]
UNMODELLED_TC = (14, 15, 22, 29, 40)
EXT_KIND = {2: 1, 3: 1, 32776: 1, 16388: 1, 258: 2, 259: 2, 514: 2, 515: 2, 2048: 2, 32777: 3,
            779: 4, 780: 4, 1538: 5, 1539: 5, 1536: 6, 1537: 7}
EXT_NAME_CODE = {'redirect-vrf': 32776, 'dmzlink-bw': 16388, 'redirect-nexthop': 2048,
                 'traffic-marking-dscp': 32777, 'color': 779, 'encapsulation': 780, 'es-import': 1538,
                 'router-mac': 1539, 'mac-mobility': 1536, 'esi-label': 1537}


class B(bytes):
    """rendered as SB"""


# ------------------------------------------------------------------------------------------
# printers
# ------------------------------------------------------------------------------------------
def coq_bytes(b):
    return '[%s]' % '; '.join('%d' % x for x in b)


def coq_sx(v):
    if isinstance(v, B):
        return 'SB %s' % coq_bytes(v)
    if isinstance(v, bool):
        return 'SN %d' % (1 if v else 0)
    if isinstance(v, int):
        return 'SN %d' % (v if v >= 0 else (1 << 64) + v)     # a negative number never equals the model's
    if isinstance(v, (list, tuple)):
        return 'SL [%s]' % '; '.join(coq_sx(x) for x in v)
    if v is None:
        return 'SL []'
    raise TypeError(repr(v))


def coq_nlist(l):
    return '[%s]' % '; '.join('%d' % x for x in l)


def coq_pfxs(ps):
    return '[%s]' % '; '.join('(%d, %d)' % p for p in ps)


def coq_apfxs(ps):
    return '[%s]' % '; '.join('(%d, (%d, %d))' % (i, a, l) for (i, (a, l)) in ps)


def coq_val(v):
    k = v[0]
    if k == 'num':
        return 'VNum %d' % v[1]
    if k == 'path':
        return 'VPath [%s]' % '; '.join('(%d, %s)' % (t, coq_nlist(a)) for t, a in v[1])
    if k == 'empty':
        return 'VEmpty'
    if k == 'pair':
        return 'VPair %d %d' % (v[1], v[2])
    if k == 'nums':
        return 'VNums %s' % coq_nlist(v[1])
    if k == 'comms':
        return 'VComms [%s]' % '; '.join('CWk %d' % c[1] if c[0] == 'wk' else 'CPair %d %d' % (c[1], c[2])
                                         for c in v[1])
    if k == 'exts':
        return 'VExts [%s]' % '; '.join('(%d, %s)' % (c, coq_nlist(f)) for c, f in v[1])
    if k == 'large':
        return 'VLarge [%s]' % '; '.join(coq_nlist(c) for c in v[1])
    raise TypeError(repr(v))


def coq_attrs(attrs):
    return '[%s]' % '; '.join('(%d, %s)' % (tc, coq_val(v)) for tc, v in attrs)


def coq_msg(m):
    return '(mkUpd %s %s %s)' % (coq_pfxs(m['withdraw']), coq_attrs(m['attrs']), coq_pfxs(m['nlri']))


def coq_bool(b):
    return 'true' if b else 'false'


# ------------------------------------------------------------------------------------------
# abstract value -> what the API user gives yabgp
# ------------------------------------------------------------------------------------------
def ip(n):
    return str(netaddr.IPAddress(n))


def pfx_text(p):
    a, l = p
    if a >= TWO32:
        return '%s/%d' % (netaddr.IPAddress(a), l)
    return '%s/%d' % (netaddr.IPAddress(a, 4), l)


def wk_name(v, style=0):
    from yabgp.common import constants as C
    n = C.WELL_KNOW_COMMUNITY_INT_2_STR[v]
    return [n, n.lower(), n.upper()][style]


def py_val(tc, v, style=0):
    k = v[0]
    if k == 'num':
        return ip(v[1]) if tc in (3, 9) else v[1]
    if k == 'path':
        return [(t, list(a)) for t, a in v[1]]
    if k == 'empty':
        return ''
    if k == 'pair':
        return (v[1], ip(v[2]))
    if k == 'nums':
        return [ip(a) for a in v[1]]
    if k == 'comms':
        return [wk_name(c[1], style) if c[0] == 'wk' else '%d:%d' % (c[1], c[2]) for c in v[1]]
    if k == 'large':
        return [':'.join('%d' % x for x in c) for c in v[1]]
    if k == 'exts':
        out = []
        for code, f in v[1]:
            kind = EXT_KIND[code]
            if kind == 1:
                out.append([code, '%d:%d' % (f[0], f[1])])
            elif kind == 2:
                if code in (258, 259):
                    out.append([code, '%s:%d' % (ip(f[0]), f[1])])
                elif code == 2048:
                    out.append([code, ip(f[0]), f[1]])
                else:
                    out.append([code, '%d:%d' % (f[0], f[1])])
            elif kind in (3, 4):
                out.append([code, f[0]])
            elif kind == 5:
                out.append([code, '-'.join('%02x' % ((f[0] >> (8 * i)) & 255) for i in (5, 4, 3, 2, 1, 0))])
            else:
                out.append([code, f[0], f[1]])
        return out
    raise TypeError(repr(v))


def py_msg(m, style=0):
    d = {}
    if m['attrs'] is not None:
        d['attr'] = dict((tc, py_val(tc, v, style)) for tc, v in m['attrs'])
    if m['nlri'] is not None:
        d['nlri'] = [pfx_text(p) for p in m['nlri']]
    if m['withdraw'] is not None:
        d['withdraw'] = [pfx_text(p) for p in m['withdraw']]
    return d


# ------------------------------------------------------------------------------------------
# decoder output -> canonical nested lists (the shape of sx_aval / sx_parsed)
# ------------------------------------------------------------------------------------------
def c_pfx(s):
    n = netaddr.IPNetwork(s)
    return [int(n.ip), n.prefixlen]


def c_comm(s):
    from yabgp.common import constants as C
    if s in C.WELL_KNOW_COMMUNITY_STR_2_INT:
        return [0, C.WELL_KNOW_COMMUNITY_STR_2_INT[s]]
    hi, lo = s.split(':')
    return [1, int(hi), int(lo)]


def c_ext(item):
    if isinstance(item, list):
        return [item[0], list(ast.literal_eval(item[1]))]
    name, rest = item.split(':', 1)
    if name in ('route-target', 'route-origin'):
        a, n = rest.rsplit(':', 1)
        base = 2 if name == 'route-target' else 3
        if '.' in a:
            return [256 + base, [int(netaddr.IPAddress(a)), int(n)]]
        return [base, [int(a), int(n)]]
    if name == 'traffic-action':             # 'S:<bit6>,T:<bit7>' (decoded only; construction not modelled)
        sv, tv = rest.split(',')
        return [32775, [int(sv.split(':')[1]), int(tv.split(':')[1])]]
    code = EXT_NAME_CODE.get(name)
    if code is None:
        return [999999, []]
    kind = EXT_KIND[code]
    if kind == 1:
        a, n = rest.split(':')
        return [code, [int(a), int(n)]]
    if kind == 2:
        a, n = rest.rsplit(':', 1)
        return [code, [int(netaddr.IPAddress(a)), int(n)]]
    if kind in (3, 4):
        return [code, [int(rest)]]
    if kind == 5:
        return [code, [int(netaddr.EUI(rest))]]
    a, n = rest.split(':')
    return [code, [int(a), int(n)]]


def c_val(tc, v):
    if tc in (1, 4, 5):
        return [0, v]
    if tc in (3, 9):
        return [0, int(netaddr.IPAddress(v))]
    if tc in (2, 17):
        return [1, [[t, list(a)] for t, a in v]]
    if tc == 6:
        return [2] if v == '' else [2, 999]
    if tc in (7, 18):
        return [3, v[0], int(netaddr.IPAddress(v[1]))]
    if tc == 10:
        return [4, [int(netaddr.IPAddress(a)) for a in v]]
    if tc == 8:
        return [5, [c_comm(c) for c in v]]
    if tc == 16:
        return [6, [c_ext(c) for c in v]]
    if tc == 32:
        return [7, [[int(x) for x in c.split(':')] for c in v]]
    return [8, B(bytes.fromhex(v))]


def c_attrs(d):
    return [[tc, c_val(tc, v)] for tc, v in (d or {}).items()]


def c_sub(s):
    if s is None:
        return []
    return [s] if isinstance(s, int) else [888888]


def run_impl(fn, render):
    from yabgp.common import exception as excep
    try:
        v = fn()
    except excep.NotificationSent as e:
        return [1, e.error, e.sub_error]
    except Exception:
        return [2]
    return [0, render(v)]


def impl_construct(m, asn4, style=0):
    from yabgp.message.update import Update
    return run_impl(lambda: Update.construct(py_msg(m, style), asn4),
                    lambda b: [] if b is None else [B(b)])


def impl_parse(body, asn4):
    from yabgp.message.update import Update

    def render(r):
        return [[c_pfx(p) for p in r['withdraw']], c_attrs(r['attr']), [c_pfx(p) for p in r['nlri']],
                c_sub(r['sub_error'])]
    return run_impl(lambda: Update.parse(None, body, asn4), render)


def impl_parse_attributes(data, asn4):
    from yabgp.message.update import Update
    from yabgp.common import exception as excep
    try:
        return [c_attrs(Update.parse_attributes(data, asn4)), []]
    except excep.UpdateMessageError as e:
        return [c_attrs(e.sub_results), c_sub(e.sub_error)]


# ------------------------------------------------------------------------------------------
# generators (the property's quantifier text)
# ------------------------------------------------------------------------------------------
def mask(a, l):
    return a & ((TWO32 - 1) ^ ((1 << (32 - l)) - 1))


def gen_prefixes(ctx):
    """all 33 lengths x boundary/random addresses, host bits zero"""
    rng = ctx.rng
    out = []
    for l in range(33):
        addrs = {0, mask(TWO32 - 1, l), mask(0x80000000, l), mask(0x01010101, l), mask(0xFFFEFDFC, l),
                 mask(1 << (32 - l), l) if l else 0, mask(0x7FFFFFFF, l)}
        for _ in range(6 if ctx.thorough else 2):
            addrs.add(mask(rng.randrange(TWO32), l))
        out += [(a, l) for a in sorted(addrs)]
    return out


def rand_prefix(rng):
    l = rng.choice([0, 1, 7, 8, 9, 15, 16, 17, 23, 24, 25, 31, 32, rng.randrange(33)])
    return (mask(rng.choice([0, TWO32 - 1, rng.randrange(TWO32)]), l), l)


def rand_int(rng, lim):
    c = [x for x in INTS if x < lim]
    return rng.choice(c + [lim - 1, rng.randrange(lim)])


def seg_count_boundaries(asn4):
    """AS counts for one segment so that 2 + n*size sits around 255 octets"""
    return [61, 62, 63, 64, 65] if asn4 else [125, 126, 127, 128]


def gen_aspaths(ctx, asn4):
    rng = ctx.rng
    lim = TWO32 if asn4 else 1 << 16
    out = [[]]
    for t in (1, 2, 3, 4):
        out.append([(t, [])])
        out.append([(t, [rand_int(rng, lim)])])
        out.append([(t, [x for x in INTS if x < lim])])
    for n in seg_count_boundaries(asn4) + [254, 255]:
        out.append([(rng.choice((1, 2, 3, 4)), [rand_int(rng, lim) for _ in range(n)])])
    # several segments whose total crosses 255 octets
    for _ in range(6 if ctx.thorough else 2):
        segs = []
        for _ in range(rng.randrange(2, 6)):
            segs.append((rng.choice((1, 2, 3, 4)), [rand_int(rng, lim) for _ in range(rng.choice([0, 1, 3, 20, 30, 40]))]))
        out.append(segs)
    size = 4 if asn4 else 2
    for total in (253, 254, 255, 256, 257, 258):        # exact totals around the boundary with two segments
        n2 = 3
        rest = total - 2 - 2 - n2 * size
        if rest >= 0 and rest % size == 0:
            out.append([(2, [rand_int(rng, lim) for _ in range(rest // size)]), (1, [rand_int(rng, lim) for _ in range(n2)])])
    return out


def rand_ext(rng, code=None):
    code = code if code is not None else rng.choice(sorted(EXT_KIND))
    kind = EXT_KIND[code]
    r16, r32 = rand_int(rng, 1 << 16), rand_int(rng, TWO32)
    if kind == 1:
        return (code, [r16, r32])
    if kind == 2:
        return (code, [r32, r16])
    if kind == 3:
        return (code, [rng.choice([0, 1, 63, 255, rng.randrange(256)])])
    if kind == 4:
        return (code, [r32])
    if kind == 5:
        return (code, [rng.choice([0, 1, (1 << 48) - 1, rng.randrange(1 << 48)])])
    if kind == 6:
        return (code, [rng.choice([0, 1, 255]), r32])
    return (code, [rng.choice([0, 1, 255]), rng.choice([0, 1, (1 << 20) - 1, rng.randrange(1 << 20)])])


def wk_values():
    from yabgp.common import constants as C
    return sorted(C.WELL_KNOW_COMMUNITY_INT_2_STR)


def rand_comm(rng):
    if rng.random() < 0.3:
        return ('wk', rng.choice(wk_values()))
    return ('pair', rand_int(rng, 1 << 16), rand_int(rng, 1 << 16))


def attr_singletons(ctx, asn4):
    """every attribute alone, integer fields at the listed boundaries: [(tc, value)]"""
    rng = ctx.rng
    lim = TWO32 if asn4 else 1 << 16
    out = [(1, ('num', o)) for o in (0, 1, 2)]
    out += [(2, ('path', p)) for p in gen_aspaths(ctx, asn4)]
    for n in INTS:
        out += [(3, ('num', n)), (4, ('num', n)), (5, ('num', n)), (9, ('num', n))]
        if n < lim:
            out.append((7, ('pair', n, rand_int(rng, TWO32))))
        out.append((7, ('pair', rand_int(rng, lim), n)))
    out.append((6, ('empty',)))
    out.append((8, ('comms', [])))
    out += [(8, ('comms', [('wk', v)])) for v in wk_values()]
    out.append((8, ('comms', [('wk', v) for v in wk_values()])))
    out += [(8, ('comms', [('pair', v >> 16, v & 0xFFFF)])) for v in wk_values()]
    out += [(8, ('comms', [('pair', a, b)])) for a in INTS if a < 65536 for b in INTS if b < 65536]
    out.append((8, ('comms', [rand_comm(rng) for _ in range(63)])))
    out += [(10, ('nums', [])), (10, ('nums', list(INTS))), (10, ('nums', [rand_int(rng, TWO32) for _ in range(63)]))]
    out += [(16, ('exts', [rand_ext(rng, code)])) for code in sorted(EXT_KIND) for _ in range(3 if ctx.thorough else 1)]
    out.append((16, ('exts', [rand_ext(rng, code) for code in sorted(EXT_KIND)])))
    out.append((16, ('exts', [rand_ext(rng) for _ in range(31)])))
    out.append((32, ('large', [])))
    out += [(32, ('large', [[a, b, c]])) for a in INTS for (b, c) in ((0, TWO32 - 1), (1 << 31, a))]
    out.append((32, ('large', [[rand_int(rng, TWO32) for _ in range(3)] for _ in range(21)])))
    return out


def rand_attr(rng, tc, asn4):
    lim = TWO32 if asn4 else 1 << 16
    if tc == 1:
        return ('num', rng.randrange(3))
    if tc == 2:
        return ('path', [(rng.choice((1, 2, 3, 4)), [rand_int(rng, lim) for _ in range(rng.choice([0, 1, 2, 5, 40, 70]))])
                         for _ in range(rng.choice([0, 1, 1, 2, 3]))])
    if tc in (3, 4, 5, 9):
        return ('num', rand_int(rng, TWO32))
    if tc == 6:
        return ('empty',)
    if tc == 7:
        return ('pair', rand_int(rng, lim), rand_int(rng, TWO32))
    if tc == 8:
        return ('comms', [rand_comm(rng) for _ in range(rng.choice([0, 1, 2, 5]))])
    if tc == 10:
        return ('nums', [rand_int(rng, TWO32) for _ in range(rng.choice([0, 1, 2, 5]))])
    if tc == 16:
        return ('exts', [rand_ext(rng) for _ in range(rng.choice([1, 2, 4]))])
    return ('large', [[rand_int(rng, TWO32) for _ in range(3)] for _ in range(rng.choice([0, 1, 2, 4]))])


ALL_TC = [1, 2, 3, 4, 5, 6, 7, 8, 9, 10, 16, 32]


def gen_messages(ctx):
    """[(asn4, message, well_formed, kind)]"""
    rng = ctx.rng
    out = []
    pf = gen_prefixes(ctx)
    base_attr = [(1, ('num', 0))]
    # every prefix alone: announced (with ORIGIN), withdrawn, both
    for p in pf:
        out.append((False, {'withdraw': [], 'attrs': base_attr, 'nlri': [p]}, True, 'nlri1'))
        out.append((False, {'withdraw': [p], 'attrs': [], 'nlri': []}, True, 'withdraw1'))
    # lists of 0..n prefixes
    for n in [0, 1, 2, 3, 8, 40] + ([100, 400] if ctx.thorough else []):
        for _ in range(4 if ctx.thorough else 2):
            ps = [rng.choice(pf) for _ in range(n)]
            qs = [rng.choice(pf) for _ in range(rng.choice([0, 1, n]))]
            out.append((rng.random() < 0.5, {'withdraw': qs, 'attrs': base_attr, 'nlri': ps}, True, 'lists'))
    out.append((False, {'withdraw': list(pf), 'attrs': base_attr, 'nlri': list(pf)}, True, 'lists-all'))
    # every attribute alone
    for asn4 in (False, True):
        for tc, v in attr_singletons(ctx, asn4):
            out.append((asn4, {'withdraw': [], 'attrs': [(tc, v)], 'nlri': [rand_prefix(rng)]}, None, 'single'))
    # all 33 lengths x all attribute kinds (one value each)
    for l in range(33):
        for tc in ALL_TC:
            asn4 = rng.random() < 0.5
            p = (mask(rng.randrange(TWO32), l), l)
            out.append((asn4, {'withdraw': [p] if rng.random() < 0.3 else [], 'attrs': [(tc, rand_attr(rng, tc, asn4))],
                               'nlri': [p]}, None, 'len-x-attr'))
    # thorough: all 33 lengths x every attribute singleton, exhaustively
    if ctx.thorough:
        for asn4 in (False, True):
            for tc, v in attr_singletons(ctx, asn4):
                if tc == 2 and sum(len(a) for _, a in v[1]) > 70:
                    continue
                for l in range(33):
                    p = (mask(rng.randrange(TWO32), l), l)
                    out.append((asn4, {'withdraw': [], 'attrs': [(tc, v)], 'nlri': [p]}, None, 'len-x-single'))
    # combinations, announce + withdraw
    for _ in range(4000 if ctx.thorough else 150):
        asn4 = rng.random() < 0.5
        tcs = rng.sample(ALL_TC, rng.randrange(0, len(ALL_TC) + 1))
        if rng.random() < 0.3:
            tcs = list(ALL_TC)
            rng.shuffle(tcs)
        attrs = [(tc, rand_attr(rng, tc, asn4)) for tc in tcs]
        m = {'withdraw': [rand_prefix(rng) for _ in range(rng.choice([0, 0, 1, 2, 5]))], 'attrs': attrs,
             'nlri': [rand_prefix(rng) for _ in range(rng.choice([0, 1, 2, 5]))]}
        out.append((asn4, m, None, 'combo'))
    # outside the round-trip domain (correspondence only): range errors, NLRI without attributes,
    # nothing to send, too long for a 1-octet length
    bad = [
        {'withdraw': [], 'attrs': [], 'nlri': [(0x0A000000, 8)]},
        {'withdraw': [(0x0B000000, 8)], 'attrs': [], 'nlri': [(0x0A000000, 8)]},
        {'withdraw': [], 'attrs': [], 'nlri': []},
        {'withdraw': [], 'attrs': [(1, ('num', 3))], 'nlri': []},
        {'withdraw': [], 'attrs': [(4, ('num', TWO32))], 'nlri': []},
        {'withdraw': [], 'attrs': [(5, ('num', TWO32))], 'nlri': []},
        {'withdraw': [], 'attrs': [(3, ('num', TWO32 + 5))], 'nlri': []},
        {'withdraw': [], 'attrs': [(7, ('pair', 1 << 16, 1))], 'nlri': []},
        {'withdraw': [], 'attrs': [(2, ('path', [(2, [1 << 16])]))], 'nlri': []},
        {'withdraw': [], 'attrs': [(2, ('path', [(2, list(range(256)))]))], 'nlri': []},
        {'withdraw': [], 'attrs': [(2, ('path', [(0, [1]), (5, [2]), (255, [])]))], 'nlri': []},
        {'withdraw': [], 'attrs': [(8, ('comms', [('pair', 65536, 0)]))], 'nlri': []},
        {'withdraw': [], 'attrs': [(8, ('comms', [('pair', 65535, 65536)]))], 'nlri': []},
        {'withdraw': [], 'attrs': [(8, ('comms', [('pair', 0, 70000)]))], 'nlri': []},
        {'withdraw': [], 'attrs': [(8, ('comms', [('pair', 1, 1)] * 64))], 'nlri': []},
        {'withdraw': [], 'attrs': [(10, ('nums', [1] * 64))], 'nlri': []},
        {'withdraw': [], 'attrs': [(16, ('exts', []))], 'nlri': []},
        {'withdraw': [], 'attrs': [(16, ('exts', [(2, [1, 1])] * 32))], 'nlri': []},
        {'withdraw': [], 'attrs': [(16, ('exts', [(2, [65536, 1])]))], 'nlri': []},
        {'withdraw': [], 'attrs': [(16, ('exts', [(1537, [1, 1 << 28])]))], 'nlri': []},
        {'withdraw': [], 'attrs': [(16, ('exts', [(1537, [1, 1 << 20])]))], 'nlri': []},
        {'withdraw': [], 'attrs': [(32, ('large', [[TWO32, 0, 0]]))], 'nlri': []},
        {'withdraw': [], 'attrs': [(32, ('large', [[1, 2]]))], 'nlri': []},
        {'withdraw': [], 'attrs': [(32, ('large', []))], 'nlri': []},
        {'withdraw': [], 'attrs': [(32, ('large', [[1, 2, 3, 4]]))], 'nlri': []},
        {'withdraw': [], 'attrs': [(32, ('large', [[1, 2], [3]]))], 'nlri': []},
        {'withdraw': [], 'attrs': [(2, ('path', [(2, [1 << 16]), (5, [1])]))], 'nlri': []},
        {'withdraw': [], 'attrs': [(2, ('path', [(5, [1]), (2, [1 << 32])]))], 'nlri': []},
        {'withdraw': [], 'attrs': [(32, ('large', [[1, 2, 3]] * 22))], 'nlri': []},
        {'withdraw': [], 'attrs': [(99, ('num', 1))], 'nlri': []},
        {'withdraw': [(0x0B000000, 8)], 'attrs': [(99, ('num', 1))], 'nlri': [(0x0A000000, 8)]},
        {'withdraw': [], 'attrs': [(1, ('num', 0))], 'nlri': [(0x0A010203, 8), (0x0A010203, 17), (0xFFFFFFFF, 1)]},
        {'withdraw': [(0x0A000000, 33)], 'attrs': [(1, ('num', 0))], 'nlri': []},
        {'withdraw': [], 'attrs': [(1, ('num', 0))], 'nlri': [(TWO32 + 7, 24)]},
    ]
    for m in bad:
        for asn4 in (False, True):
            out.append((asn4, m, False, 'outside-domain'))
    return out


# ------------------------------------------------------------------------------------------
# well-formedness = the ranges of the property text, decided on the abstract value only
# ------------------------------------------------------------------------------------------
def wf_val(tc, v, asn4):
    lim = TWO32 if asn4 else 1 << 16
    k = v[0]
    if tc == 1:
        return k == 'num' and v[1] <= 2
    if tc in (3, 4, 5, 9):
        return k == 'num' and v[1] < TWO32
    if tc == 2:
        raw = sum(2 + len(a) * (4 if asn4 else 2) for _, a in v[1])
        return k == 'path' and all(1 <= t <= 4 and len(a) <= 255 and all(x < lim for x in a) for t, a in v[1]) \
            and raw <= 65535
    if tc == 6:
        return k == 'empty'
    if tc == 7:
        return k == 'pair' and v[1] < lim and v[2] < TWO32
    if tc == 8:
        return k == 'comms' and len(v[1]) <= 63 and all(
            (c[1] in wk_values()) if c[0] == 'wk' else (c[1] < 65536 and c[2] < 65536) for c in v[1])
    if tc == 10:
        return k == 'nums' and len(v[1]) <= 63 and all(a < TWO32 for a in v[1])
    if tc == 16:
        def ok(code, f):
            kind = EXT_KIND.get(code)
            lims = {1: [1 << 16, TWO32], 2: [TWO32, 1 << 16], 3: [256], 4: [TWO32], 5: [1 << 48],
                    6: [256, TWO32], 7: [256, 1 << 20]}.get(kind)
            return lims is not None and len(f) == len(lims) and all(x < y for x, y in zip(f, lims))
        return k == 'exts' and 1 <= len(v[1]) <= 31 and all(ok(c, f) for c, f in v[1])
    if tc == 32:
        return k == 'large' and 1 <= len(v[1]) <= 21 and all(len(c) == 3 and all(x < TWO32 for x in c) for c in v[1])
    return False


KNOWN_NLRI_NO_ATTR = 'C06-nlri-without-attributes'


def in_ranges_msg(m, asn4):
    """the stated ranges without the side conditions (Coq: in_ranges)"""
    ps = m['withdraw'] + m['nlri']
    tcs = [tc for tc, _ in m['attrs']]
    return all(l <= 32 and a < TWO32 and mask(a, l) == a for a, l in ps) and len(set(tcs)) == len(tcs) \
        and all(wf_val(tc, v, asn4) for tc, v in m['attrs']) and size_ok(m, asn4)


def wf_msg(m, asn4):
    ps = m['withdraw'] + m['nlri']
    if not all(l <= 32 and a < TWO32 and mask(a, l) == a for a, l in ps):
        return False
    tcs = [tc for tc, _ in m['attrs']]
    if len(set(tcs)) != len(tcs) or not all(wf_val(tc, v, asn4) for tc, v in m['attrs']):
        return False
    if m['nlri'] and not m['attrs']:
        return False
    return bool(m['attrs'] or m['withdraw'])


def canon_input(m):
    """the decoder's form of what was given (text identification only; independent of the Coq model)"""
    def cv(tc, v):
        if v[0] == 'num':
            return [0, v[1]]
        if v[0] == 'path':
            return [1, [[t, list(a)] for t, a in v[1]]]
        if v[0] == 'empty':
            return [2]
        if v[0] == 'pair':
            return [3, v[1], v[2]]
        if v[0] == 'nums':
            return [4, list(v[1])]
        if v[0] == 'comms':
            out = []
            for c in v[1]:
                val = c[1] if c[0] == 'wk' else c[1] * 65536 + c[2]
                out.append([0, val] if val in wk_values() else [1, val >> 16, val & 0xFFFF])
            return [5, out]
        if v[0] == 'exts':
            return [6, [[{514: 2, 515: 3}.get(c, c), list(f)] for c, f in v[1]]]
        return [7, [list(c) for c in v[1]]]
    return [[list(p) for p in m['withdraw']], [[tc, cv(tc, v)] for tc, v in m['attrs']],
            [list(p) for p in m['nlri']], []]


def size_ok(m, asn4):
    """the encoded message fits 4096 octets (decided by the size formula, not by running the code)"""
    def psize(ps):
        return sum(1 + (l + 7) // 8 for _, l in ps)

    def asize(tc, v):
        if tc in (1,):
            return 4
        if tc in (3, 4, 5, 9):
            return 7
        if tc == 6:
            return 3
        if tc == 7:
            return 3 + (8 if asn4 else 6)
        if tc == 2:
            raw = sum(2 + len(a) * (4 if asn4 else 2) for _, a in v[1])
            return raw + (4 if raw > 255 else 3)
        if tc in (8, 10):
            return 3 + 4 * len(v[1])
        if tc == 16:
            return 3 + 8 * len(v[1])
        return 3 + 12 * len(v[1])
    return 23 + psize(m['withdraw']) + psize(m['nlri']) + sum(asize(tc, v) for tc, v in m['attrs']) <= 4096


# ------------------------------------------------------------------------------------------
# malformed stream
# ------------------------------------------------------------------------------------------
def modelled_body(body):
    """False when the body reaches a decoder outside the model (walks the framing the way the code does)"""
    if len(body) < 2:
        return True
    wl = struct.unpack('!H', body[:2])[0]
    al_raw = body[wl + 2:wl + 4]
    if len(al_raw) < 2:
        return True
    al = struct.unpack('!H', al_raw)[0]
    return modelled_attrs(body[wl + 4:wl + 4 + al])


def modelled_attrs(d):
    while d:
        if len(d) < 3:
            return True
        flags, tc = d[0], d[1]
        if flags & 0x10:
            if len(d) < 4:
                return True
            n = struct.unpack('!H', d[2:4])[0]
            v, d = d[4:4 + n], d[4 + n:]
        else:
            n = d[2]
            v, d = d[3:3 + n], d[3 + n:]
        if tc in UNMODELLED_TC:
            return False
        if tc == 16:
            for i in range(0, len(v), 8):
                if v[i:i + 2] == b'\x80\x06':
                    return False
    return True


def mutations(rng, body, n):
    out = []
    L = len(body)
    if not L:
        return out
    for _ in range(n):
        b = bytearray(body)
        k = rng.randrange(6)
        i = rng.randrange(L)
        if k == 0:
            b = b[:i]
        elif k == 1:
            b[i] = rng.choice([0, 1, 4, 16, 32, 33, 64, 80, 127, 128, 255, rng.randrange(256)])
        elif k == 2:
            b[i] ^= 1 << rng.randrange(8)
        elif k == 3:
            del b[i]
        elif k == 4:
            b.insert(i, rng.randrange(256))
        else:
            b = b[:i] + bytes(rng.randrange(256) for _ in range(rng.randrange(1, 5)))
        out.append(bytes(b))
    return out


# ------------------------------------------------------------------------------------------
# correspondence machinery
# ------------------------------------------------------------------------------------------
def correspond(ctx, cases, per_shard=150):
    """cases: [(coq expression, impl canonical value, description)]"""
    if not ctx.coq_ok or not cases:
        return []
    shards, spans = [], []
    i = 0
    while i < len(cases):
        j, size = i, 0
        while j < len(cases) and j - i < per_shard and size < 600000:
            size += len(cases[j][0]) + 40 * len(repr(cases[j][1])) // 10
            j += 1
        body = ';\n'.join('(%s, %s)' % (cases[k][0], coq_sx(cases[k][1])) for k in range(i, j))
        shards.append('Definition cases : list (sx * sx) := [\n%s\n].\nEval vm_compute in (mismatches cases).\n' % body)
        spans.append(i)
        i = j
    mism = []
    for k, (rc, out) in enumerate(common.coq_eval_shards(ctx.prop, shards, imports=IMPORTS)):
        idx = common.parse_nats(out)
        if rc != 0 or idx is None:
            mism.append({'what': 'case file %d does not evaluate: %s' % (k, common.first_error(out))})
            continue
        for x in idx:
            c = cases[spans[k] + x]
            mism.append({'what': 'model and implementation differ on %r' % (c[2],), 'input': c[2],
                         'impl': repr(c[1])[:2000], 'model_expr': c[0][:4000]})
    return mism


def describe(kind, asn4, m):
    return [kind, asn4, py_msg(m)]


def prefix_cases(ctx):
    """direct correspondence of construct_prefix_v4 / parse_prefix_list / IPv4Unicast.parse (+ add-path)"""
    from yabgp.message.update import Update
    from yabgp.message.attribute.nlri.ipv4_unicast import IPv4Unicast
    rng = ctx.rng
    cases = []
    pf = gen_prefixes(ctx)
    lists = [[p] for p in pf] + [[rng.choice(pf) for _ in range(n)] for n in (0, 2, 3, 10, 50) for _ in range(3)]
    # host bits set, invalid lengths
    lists += [[(rng.randrange(TWO32), l)] for l in range(34)]
    lists += [[(0x0A000000, 8), (0x0A000000, 40)], [(TWO32, 8)]]
    blobs = []
    for ps in lists:
        texts = [pfx_text(p) for p in ps]
        r = run_impl(lambda: Update.construct_prefix_v4(texts), B)
        cases.append(('sx_res SB (construct_prefix_v4 %s)' % coq_pfxs(ps), r, ['construct_prefix_v4', texts]))
        if r[0] == 0:
            blobs.append(bytes(r[1]))
        aps = [(rng.choice([0, 1, TWO32 - 1, rng.randrange(TWO32)]), p) for p in ps]
        if len(ps) <= 3 or rng.random() < 0.3:
            dicts = [{'prefix': pfx_text(p), 'path_id': i} for i, p in aps]
            r = run_impl(lambda: Update.construct_prefix_v4(dicts, True), B)
            cases.append(('sx_res SB (construct_prefix_v4_ap %s)' % coq_apfxs(aps), r,
                          ['construct_prefix_v4 add_path', dicts]))
            if r[0] == 0:
                blobs.append(bytes(r[1]))
    # decoder: the constructed blobs, every length octet 0..40 with 0..5 following octets, mutations
    for l in list(range(41)) + [255]:
        for k in range(6):
            blobs.append(bytes([l]) + bytes(rng.randrange(256) for _ in range(k)))
            blobs.append(bytes([l]) + b'\xff' * k)
    for b in list(blobs):
        if rng.random() < (1.0 if ctx.thorough else 0.3):
            blobs += mutations(rng, b, 2)
    blobs.append(b'')

    def rp(v):
        return [c_pfx(p) for p in v]

    def rap(v):
        return [[d['path_id'], c_pfx(d['prefix'])] for d in v]
    for b in blobs:
        cases.append(('sx_res (sx_list sx_pfx) (parse_prefix_list %s)' % coq_bytes(b),
                      run_impl(lambda: Update.parse_prefix_list(b), rp), ['parse_prefix_list', b.hex()]))
        cases.append(('sx_res (sx_list sx_apfx) (parse_prefix_list_ap %s)' % coq_bytes(b),
                      run_impl(lambda: Update.parse_prefix_list(b, True), rap), ['parse_prefix_list add_path', b.hex()]))
        if rng.random() < 0.3:
            cases.append(('sx_res (sx_list sx_pfx) (parse_prefix_list %s)' % coq_bytes(b),
                          run_impl(lambda: IPv4Unicast.parse(b), rp), ['IPv4Unicast.parse', b.hex()]))
    return cases


def run(ctx):
    from yabgp.message.update import Update
    rng = ctx.rng
    msgs = gen_messages(ctx)
    cases, viol = [], []
    kinds = {}
    n_oracle = n_wf = n_malformed = 0
    distinct = set()
    samples = []
    # the well-known community table of the model is the live one
    cases.append(('SL (map SN wk_communities)', wk_values(), ['WELL_KNOW_COMMUNITY_INT_2_STR keys']))
    cases += prefix_cases(ctx)
    n_prefix_cases = len(cases)
    bodies = []
    for asn4, m, wf, kind in msgs:
        if wf is None:
            wf = wf_msg(m, asn4) and size_ok(m, asn4)
        kinds[kind] = kinds.get(kind, 0) + 1
        style = rng.randrange(3)
        r = impl_construct(m, asn4, style)
        desc = describe(kind, asn4, m)
        cases.append(('sx_res sx_optbytes (construct %s %s)' % (coq_bool(asn4), coq_msg(m)), r, ['construct'] + desc))
        body = None
        if r[0] == 0 and r[1]:
            msg = bytes(r[1][0])
            body = msg[19:]
            bodies.append((asn4, body))
            p = impl_parse(body, asn4)
            cases.append(('sx_res sx_parsed (parse_full %s %s)' % (coq_bool(asn4), coq_bytes(body)), p,
                          ['parse', asn4, body.hex()]))
        # ---- the property itself, on the implementation ----
        if wf:
            n_wf += 1
            n_oracle += 1
            distinct.add(repr((asn4, m)))
            if len(samples) < 6 and kind in ('combo', 'single') and rng.random() < 0.05:
                samples.append(desc)
            why = None
            if body is None:
                why = 'construct gives %r for a message inside the stated ranges' % (r,)
            else:
                hdr_ok = msg[:16] == b'\xff' * 16 and struct.unpack('!HB', msg[16:19]) == (len(msg), 2)
                want = [0, canon_input(m)]
                if not hdr_ok:
                    why = 'bad header'
                elif p != want:
                    why = 'decoded %r, given %r' % (p, want)
            if why:
                viol.append({'what': 'UPDATE round trip: ' + why[:1500], 'input': desc, 'known': None,
                             'abstract': {'asn4': asn4, 'm': m, 'style': style}})
    # ---- known-finding class: announced prefixes without attributes are not sent.  Reported only
    #      once the maintainer has merged the id into known_findings.json (until then the class is a
    #      visible restriction of the domain: wf_msg / Coq wf) ----
    if any(k['id'] == KNOWN_NLRI_NO_ATTR for k in common.known_findings('C06')):
        for asn4, m, wf, kind in msgs:
            if kind != 'outside-domain' or not m['nlri'] or m['attrs'] or not in_ranges_msg(m, asn4):
                continue
            n_oracle += 1
            why = oracle_one(m, asn4)
            if why is None:
                continue        # fixed: nothing to report
            r = impl_construct(m, asn4)
            recorded = (r == [0, []]) if not m['withdraw'] else (
                r[0] == 0 and r[1] and impl_parse(bytes(r[1][0])[19:], asn4) ==
                [0, [[list(p) for p in m['withdraw']], [], [], []]])
            viol.append({'what': 'announced prefixes without attributes are not sent: ' + why[:300],
                         'input': describe(kind, asn4, m), 'abstract': {'asn4': asn4, 'm': m, 'style': 0},
                         'known': KNOWN_NLRI_NO_ATTR if recorded else None})
    # ---- attribute-list level (parse_attributes / construct_attributes directly) ----
    for asn4, m, wf, kind in msgs[::(3 if ctx.thorough else 12)]:
        d = dict((tc, py_val(tc, v)) for tc, v in m['attrs'])
        r = run_impl(lambda: Update.construct_attributes(d, asn4), B)
        cases.append(('sx_res SB (construct_attributes %s %s)' % (coq_bool(asn4), coq_attrs(m['attrs'])), r,
                      ['construct_attributes', asn4, d]))
        if r[0] == 0:
            data = bytes(r[1])
            datas = [data] + [x for x in mutations(rng, data, 2) if modelled_attrs(x)]
            for x in datas:
                cases.append(('sx_pattrs (parse_attributes %s %s)' % (coq_bool(asn4), coq_bytes(x)),
                              impl_parse_attributes(x, asn4), ['parse_attributes', asn4, x.hex()]))
    # traffic-action extended community (decoded, never constructed by the generator)
    for last in (0, 1, 2, 3, 128, 255):
        x = bytes([0xc0, 16, 16, 0x80, 0x07, 0, 0, 0, 0, 0, last, 0x00, 0x02, 0xfd, 0xe8, 0, 0, 0, 7])
        cases.append(('sx_pattrs (parse_attributes false %s)' % coq_bytes(x),
                      impl_parse_attributes(x, False), ['parse_attributes', False, x.hex()]))
    # ---- malformed stream for Update.parse ----
    per = 4 if ctx.thorough else 1
    for bi, (asn4, body) in enumerate(bodies):
        if len(body) > 1500 or (len(bodies) > 8000 and bi % 3):
            continue
        for x in mutations(rng, body, per):
            if not modelled_body(x):
                continue
            n_malformed += 1
            a4 = asn4 if rng.random() < 0.9 else (not asn4)
            cases.append(('sx_res sx_parsed (parse_full %s %s)' % (coq_bool(a4), coq_bytes(x)),
                          impl_parse(x, a4), ['parse malformed', a4, x.hex()]))
    for x in [b'', b'\x00', b'\x00\x00', b'\x00\x00\x00', b'\x00\x00\x00\x00', b'\x00\x01\x00\x00\x00',
              b'\x00\x05\x18\x0a\x00', b'\xff\xff\x00\x00', b'\x00\x00\x00\x03\x40\x01', b'\x00\x00\xff\xff\x40\x01\x01\x00']:
        cases.append(('sx_res sx_parsed (parse_full false %s)' % coq_bytes(x), impl_parse(x, False),
                      ['parse malformed', False, x.hex()]))
    mism = correspond(ctx, cases)
    outcomes = {}
    for c in cases:
        k = (c[2][0], c[1][0] if isinstance(c[1], list) and c[1] and isinstance(c[1][0], int) else 0)
        outcomes['%s:%s' % k] = outcomes.get('%s:%s' % k, 0) + 1
    return {'evaluations': len(cases) + n_oracle, 'distinct': len(distinct),
            'rule': 'messages: every prefix length 0..32 x boundary/random addresses announced and withdrawn; '
                    'lists of 0..n prefixes; every attribute alone with integer fields at 0,1,2^15,2^16-1,2^16,2^31,'
                    '2^32-1; AS_PATH of every segment type and sizes across the 255-octet boundary; every '
                    'well-known community by name (three spellings) and by number; random combinations with '
                    'announce+withdraw; plus out-of-range values (correspondence only).  Each message: '
                    'construct (model vs code), parse of the result (model vs code), mutations/truncations of the '
                    'body (model vs code), and for messages inside the stated ranges the round-trip oracle. '
                    'A case is non-trivial (distinct) when it is a well-formed message that the oracle decoded',
            'samples': samples[:6], 'mismatches': mism, 'violations': viol,
            'extra': {'correspondence_cases': len(cases), 'prefix_level_cases': n_prefix_cases,
                      'oracle_messages': n_oracle, 'malformed_bodies': n_malformed,
                      'message_kinds': kinds, 'case_outcomes(kind:0=value,1=bgp-error,2=exception)': outcomes}}


def oracle_one(m, asn4, style=0):
    """the round-trip property on one abstract message: None if it holds, else what was observed"""
    r = impl_construct(m, asn4, style)
    if r[0] != 0 or not r[1]:
        return 'construct gives %r for a message inside the stated ranges' % (r,)
    msg = bytes(r[1][0])
    if not (msg[:16] == b'\xff' * 16 and struct.unpack('!HB', msg[16:19]) == (len(msg), 2)):
        return 'bad header'
    p = impl_parse(msg[19:], asn4)
    want = [0, canon_input(m)]
    if p != want:
        return 'decoded %r, given %r' % (p, want)
    return None


def replay(ctx, obj):
    """re-run one stored violation (the abstract message recorded with it) on the implementation"""
    v = obj.get('violation', obj)
    print(v.get('what'))
    ab = v.get('abstract')
    if not ab:
        print('no replayable message stored with', v.get('input'))
        return 1
    m, asn4 = ab['m'], ab['asn4']
    print('message given to Update.construct (asn4=%s): %r' % (asn4, py_msg(m, ab.get('style', 0))))
    why = oracle_one(m, asn4, ab.get('style', 0))
    if why:
        print('STILL FAILS: ' + why[:2000])
        return 1
    print('round trip holds now')
    return 0
