"""C14, OPEN half — yabgp/message/open.py against coq/model/YOpen.v and coq/spec/RefOpen.v.

run(ctx) (merged into the C14 result by c14.py):
  correspondence  model == implementation, evaluated inside Coq, for
      * the constants the model copies (Capability.<CODE>, AFI_SAFI_DICT / ADD_PATH_ACT_DICT keys)
      * Open.construct: every subset of the 7 capability-dictionary keys x AS / hold / id boundaries,
        out-of-range values (struct.error / KeyError -> PyExc)
      * Open.parse (attributes AND return value): the implementation's own OPENs, reference-encoded
        OPENs (python transcription of spec/RefOpen.v: capability subsets, orders, packagings) and a
        malformed stream (truncations, wrong lengths, unknown parameter types, 1-octet mutations)
  oracle (implementation only, no model)
      * construct -> parse returns version 4, the true AS, hold, id, the configured capability set,
        through the attributes and through the return value
      * reference-encoded OPEN decodes to the expected dictionary

Address families.  Every capability that carries <AFI, SAFI> (multiprotocol, ADD-PATH with every
Send/Receive value, graceful restart, LLGR, extended next hop) is generated for EVERY family of
REF_FAMILY_NAME, every further key of the live constants.AFI_SAFI_DICT and some families nobody
knows (gen_family_sweep).  The NAMES expected in the 'add_path' entries come from REF_FAMILY_NAME /
REF_MODE_NAME below - a transcription of coq/spec/RefOpenNames.v (compared with it inside Coq on
every run), never from the constants module under test: a renamed family is a violation with the
OPEN that shows it.  An ADD-PATH entry for a family or mode without a reference name raises
(KeyError) in the unchanged code; the property speaks of known families only, so that behaviour is
the reference for those inputs (expected outcome: exception).
"""
import ast
import itertools
import struct

import env  # noqa: F401
import common
from session import Bytes, coq_sx, coq_bytes

IMPORTS = ('From YV Require Import lib.Base gen.Consts model.YMsg model.YOpen model.YOpenNames '
           'spec.RefOpenNames.\n')
PER_SHARD = 200

ADDPATH_STR = {0: None, 1: 'ipv4_receive', 2: 'ipv4_send', 3: 'ipv4_both', 4: 'ipv6_both'}
CODE_NAMES = ['MULTIPROTOCOL_EXTENSIONS', 'ROUTE_REFRESH', 'EXTENDED_NEXT_HOP', 'GRACEFUL_RESTART',
              'FOUR_BYTES_ASN', 'ADD_PATH', 'ENHANCED_ROUTE_REFRESH', 'LLGR', 'CISCO_ROUTE_REFRESH',
              'CISCO_MULTISESSION_BGP']
# Reference names (transcription of coq/spec/RefOpenNames.v family_names / mode_names; written down
# here, NOT read from yabgp.common.constants).  IPv4: unicast, multicast, labelled, flow specification,
# MPLS VPN, SR policy; IPv6: unicast, labelled, MPLS VPN, flow specification; L2VPN EVPN; BGP-LS.
REF_FAMILY_NAME = {
    (1, 1): 'ipv4', (1, 2): 'ipv4_mcast', (2, 1): 'ipv6', (1, 4): 'ipv4_lu', (2, 4): 'ipv6_lu',
    (1, 133): 'flowspec', (1, 128): 'vpnv4', (2, 128): 'vpnv6', (25, 70): 'evpn', (16388, 71): 'bgpls',
    (1, 73): 'ipv4_srte', (2, 133): 'ipv6_flowspec'}
REF_MODE_NAME = {1: 'receive', 2: 'send', 3: 'both'}              # RFC 7911 s.4
REF_FAMILY_OF = {v: k for k, v in REF_FAMILY_NAME.items()}
REF_MODE_OF = {v: k for k, v in REF_MODE_NAME.items()}
assert len(REF_FAMILY_OF) == len(REF_FAMILY_NAME) and len(REF_MODE_OF) == len(REF_MODE_NAME)
FAMILIES = list(REF_FAMILY_NAME)
# families without a name anywhere: IPv4 SAFI 3 (obsolete), IPv6 multicast, IPv4 MVPN, IPv6 SR policy,
# VPLS, BGP-LS-VPN, AFI 3, reserved values
UNKNOWN_FAMILIES = [(2, 2), (1, 129), (2, 73), (25, 65), (16388, 72), (1, 3), (3, 1), (0, 0), (65535, 255)]
ASSIGNED = [1, 2, 5, 64, 65, 69, 70, 71, 128, 131]


# ------------------------------------------------------------------------------------------
# canonical rendering of implementation values (mirrors YOpen.sx_*)
# ------------------------------------------------------------------------------------------
def _name_entry(x, named):
    """one element of capa_dict['add_path'].  named: [Bytes(family name), Bytes(mode name)];
    else [afi, safi, code] through the REFERENCE tables (a name the reference does not know is [999])"""
    if not (isinstance(x, dict) and set(x) == {'afi_safi', 'send/receive'}):
        return [999]
    f, m = x['afi_safi'], x['send/receive']
    if not (isinstance(f, str) and isinstance(m, str)):
        return [999]
    if named:
        return [Bytes(f.encode('utf-8')), Bytes(m.encode('utf-8'))]
    if f not in REF_FAMILY_OF or m not in REF_MODE_OF:
        return [999]
    return list(REF_FAMILY_OF[f]) + [REF_MODE_OF[m]]


def render_capa(d, named=False):
    d = dict(d)

    def flag(k):
        if k not in d:
            return 0
        return 1 if d.pop(k) is True else 99

    def optlist(k, f):
        if k not in d:
            return []
        return [[f(x) for x in d.pop(k)]]

    out = [flag('four_bytes_as'),
           optlist('afi_safi', lambda x: [int(x[0]), int(x[1])]),
           flag('route_refresh'), flag('cisco_route_refresh'), flag('graceful_restart'),
           flag('cisco_multi_session'), flag('enhanced_route_refresh'),
           optlist('add_path', lambda x: _name_entry(x, named)),
           optlist('LLGR', lambda x: (list(x['afi_safi']) + [x['time']]
                                      if set(x) == {'afi_safi', 'time'} else [999])),
           optlist('ext_nexthop', lambda x: (list(x['afi_safi']) + [x['nexthop_afi']]
                                             if set(x) == {'afi_safi', 'nexthop_afi'} else [999]))]
    other = []
    for k, v in d.items():        # insertion order
        try:
            code = int(k)
            val = ast.literal_eval(v)
            assert isinstance(val, bytes) and str(code) == k
            other.append([code, Bytes(val)])
        except Exception:
            other.append([10 ** 9, Bytes(b'')])
    out.append(other)
    return out


def named_dict(dic):
    """expected dictionary with numeric add_path entries [afi, safi, code] -> the same with the
    REFERENCE names; None when some entry has no reference name (expected outcome: exception)"""
    dic = list(dic)
    if dic[7]:
        ents = []
        for a, s_, v in dic[7][0]:
            if (a, s_) not in REF_FAMILY_NAME or v not in REF_MODE_NAME:
                return None
            ents.append([Bytes(REF_FAMILY_NAME[(a, s_)].encode()), Bytes(REF_MODE_NAME[v].encode())])
        dic[7] = [ents]
    return dic


def render_attrs(version, asn, hold, bgp_id, capa, named=False):
    import netaddr
    return [version, asn, hold, int(netaddr.IPAddress(bgp_id)), render_capa(capa, named)]


def impl_parse(body, named=False):
    """canonical value of Open().parse(body): [attributes, return value]
    (named=False: the form of YOpen.sx_open_parse, also used by c15.py; named=True: the form of
    YOpenNames.sx_open_parse_n, 'add_path' entries as the two strings)"""
    from yabgp.message.open import Open
    from yabgp.common import exception as excep
    o = Open()
    try:
        ret = o.parse(body)
    except excep.NotificationSent as e:
        return [1, e.error, e.sub_error]
    except Exception:
        return [2]
    attrs = render_attrs(o.version, o.asn, o.hold_time, o.bgp_id, o.capa_dict, named)
    if ret is None:
        r = []
    elif isinstance(ret, dict) and set(ret) == {'version', 'asn', 'hold_time', 'bgp_id', 'capabilities'}:
        r = [render_attrs(ret['version'], ret['asn'], ret['hold_time'], ret['bgp_id'], ret['capabilities'], named)]
    else:
        r = [[999]]
    return [0, [attrs, r]]


def cfg_dict(cfg, rng):
    """python my_capability dictionary of a model configuration
    cfg = (afi_safi|None, cisco_rr, rr, four, ext_nh|None, add_path 0..4, err)"""
    afi_safi, cisco, rr, four, ext, ap, err = cfg
    d = {}
    if afi_safi is not None:
        d['afi_safi'] = [tuple(x) for x in afi_safi]
    for k, v in (('cisco_route_refresh', cisco), ('route_refresh', rr), ('four_bytes_as', four),
                 ('enhanced_route_refresh', err)):
        if v:
            d[k] = True
        elif rng.random() < 0.5:
            d[k] = rng.choice([False, None])
    if ext is not None:
        d['ext_nexthop'] = [{'afi_safi': [a, s], 'nexthop_afi': n} for (a, s, n) in ext]
    if ap:
        d['add_path'] = ADDPATH_STR[ap]
    elif rng.random() < 0.5:
        d['add_path'] = None
    if rng.random() < 0.3:
        d['graceful_restart'] = rng.choice([True, False])       # keys construct ignores
    if rng.random() < 0.3:
        d['cisco_multi_session'] = True
    return d


def coq_cfg(cfg):
    afi_safi, cisco, rr, four, ext, ap, err = cfg
    b = lambda x: 'true' if x else 'false'   # noqa: E731
    a = 'None' if afi_safi is None else '(Some [%s])' % '; '.join('(%d, %d)' % tuple(x) for x in afi_safi)
    e = 'None' if ext is None else '(Some [%s])' % '; '.join('(%d, %d, %d)' % tuple(x) for x in ext)
    return '(mkcfg %s %s %s %s %s %d %s)' % (a, b(cisco), b(rr), b(four), e, ap, b(err))


def impl_construct(version, asn, hold, bgp_id, d):
    from yabgp.message.open import Open
    try:
        return [0, Bytes(Open(version=version, asn=asn, hold_time=hold, bgp_id=bgp_id).construct(dict(d)))]
    except Exception:
        return [2]


# ------------------------------------------------------------------------------------------
# python transcription of spec/RefOpen.v (reference encoder) and of the expected dictionary
# ------------------------------------------------------------------------------------------
def be(k, n):
    return int(n).to_bytes(k, 'big')


def cap_tlv(c):
    k = c[0]
    if k == 'Mp':
        return 1, be(2, c[1]) + bytes([0, c[2]])
    if k == 'RouteRefresh':
        return 2, b''
    if k == 'CiscoRouteRefresh':
        return 128, b''
    if k == 'EnhancedRR':
        return 70, b''
    if k == 'GracefulRestart':
        return 64, be(2, c[1] * 4096 + c[2]) + b''.join(be(2, a) + bytes([s, f]) for a, s, f in c[3])
    if k == 'As4':
        return 65, be(4, c[1])
    if k == 'AddPath':
        return 69, b''.join(be(2, a) + bytes([s, v]) for a, s, v in c[1])
    if k == 'ExtNexthop':
        return 5, b''.join(be(2, a) + be(2, s) + be(2, n) for a, s, n in c[1])
    if k == 'Llgr':
        return 71, b''.join(be(2, a) + bytes([s, f]) + be(3, t) for a, s, f, t in c[1])
    if k == 'Unknown':
        return c[1], bytes(c[2])
    raise ValueError(c)


def enc_tlv(t):
    return bytes([t[0], len(t[1])]) + t[1]


def enc_param(ts):
    v = b''.join(enc_tlv(t) for t in ts)
    return bytes([2, len(v)]) + v


def ref_open_body(version, my_as, hold, bgp_id, params):
    p = b''.join(enc_param([cap_tlv(c) for c in caps]) for caps in params)
    return bytes([version]) + be(2, my_as) + be(2, hold) + be(4, bgp_id) + bytes([len(p)]) + p


def fits(params):
    tot = 0
    for caps in params:
        n = 0
        for c in caps:
            v = cap_tlv(c)[1]
            if len(v) > 255:
                return False
            n += 2 + len(v)
        if n > 255:
            return False
        tot += 2 + n
    return tot <= 255


def expected(my_as, caps):
    """what the receiver must report for the capability sequence (transcription of
    OpenProofs.dict_of_caps): [asn, canonical dictionary]"""
    four = rr = crr = gr = ms = err = 0
    afi_safi = add_path = llgr = ext = None
    other = []
    asn = my_as
    for c in caps:
        k = c[0]
        if k == 'Mp':
            afi_safi = (afi_safi or []) + [[c[1], c[2]]]
        elif k == 'RouteRefresh':
            rr = 1
        elif k == 'CiscoRouteRefresh':
            crr = 1
        elif k == 'EnhancedRR':
            err = 1
        elif k == 'GracefulRestart':
            gr = 1
        elif k == 'As4':
            four, asn = 1, c[1]
        elif k == 'AddPath':
            add_path = (add_path or []) + [[a, s, v] for a, s, v in c[1]]
        elif k == 'ExtNexthop':
            ext = [[a, s, n] for a, s, n in c[1]]
        elif k == 'Llgr':
            llgr = [[a, s, t] for a, s, f, t in c[1]]
        elif k == 'Unknown' and c[1] == 131:
            ms = 1
        elif k == 'Unknown':
            for e in other:
                if e[0] == c[1]:
                    e[1] = Bytes(c[2])
                    break
            else:
                other.append([c[1], Bytes(c[2])])
    o = lambda x: [] if x is None else [x]   # noqa: E731
    return asn, [four, o(afi_safi), rr, crr, gr, ms, err, o(add_path), o(llgr), o(ext), other]


def expected_of_cfg(asn, cfg):
    afi_safi, cisco, rr, four, ext, ap, err = cfg
    o = lambda x: [] if x is None else [x]   # noqa: E731
    return [1 if (asn > 65535 or four) else 0,
            o([list(x) for x in afi_safi] if afi_safi else None),
            int(bool(rr)), int(bool(cisco)), 0, 0, int(bool(err)),
            o([[1, 1, ap]] if ap else None), [], o([list(x) for x in ext] if ext is not None else None), []]


# ------------------------------------------------------------------------------------------
# generators
# ------------------------------------------------------------------------------------------
AS_OK = [1, 2, 255, 256, 23455, 23456, 23457, 65534, 65535, 65536, 65537, 131072, 2 ** 31 - 1, 2 ** 31,
         2 ** 32 - 2, 2 ** 32 - 1]
AS_BAD = [2 ** 32, 2 ** 32 + 1]
HOLD_OK = [0, 1, 2, 3, 90, 180, 255, 256, 65534, 65535]
ID_OK = [0, 1, 0x01010101, 0x0a000006, 0x7fffffff, 0x80000000, 0xffffffff]


def gen_cfgs(ctx):
    rng = ctx.rng
    afl = [[(1, 1)], [(1, 128), (1, 1)], list(FAMILIES), [(65535, 255)], [(0, 0)], [(1, 1)] * 3]
    exl = [[(1, 1, 2)], [(1, 1, 2), (1, 128, 2)], [], [(65535, 65535, 65535)], [(1, 4, 2)] * 7]
    cfgs = []
    for bits in itertools.product([0, 1], repeat=7):
        a, c, r, f, e, p, x = bits
        cfgs.append((rng.choice(afl) if a else None, c, r, f, rng.choice(exl) if e else None,
                     rng.choice([1, 2, 3]) if p else 0, x))
    return cfgs


def gen_construct(ctx):
    """[(version, asn, hold, id, cfg)]"""
    rng = ctx.rng
    out = []
    cfgs = gen_cfgs(ctx)
    for cfg in cfgs:                                     # every key subset x AS boundaries
        for asn in (AS_OK if ctx.thorough else [1, 23456, 65535, 65536, 2 ** 32 - 1] + rng.sample(AS_OK, 2)):
            out.append((4, asn, rng.choice(HOLD_OK), rng.choice(ID_OK), cfg))
    base = cfgs[-1]
    for hold in (range(0, 65536, 1 if ctx.thorough else 257)):
        # thorough: every hold time through the oracle, every 16th also through the model
        out.append((4, rng.choice(AS_OK), hold, rng.choice(ID_OK), rng.choice(cfgs),
                    (not ctx.thorough) or hold % 16 == 0 or hold > 65500))
    for hold in HOLD_OK + [65536, 70000]:
        for bid in ID_OK + [2 ** 32]:
            out.append((4, rng.choice(AS_OK), hold, bid, base))
    # empty / long / out-of-range lists and values
    odd = [
        ([], 0, 0, 0, None, 0, 0), ([], 1, 0, 0, [], 0, 0), (None, 0, 0, 0, [], 0, 0),
        ([(65536, 1)], 0, 0, 0, None, 0, 0), ([(1, 256)], 0, 0, 0, None, 0, 0),
        ([(1, 1), (1, 256)], 1, 1, 1, None, 0, 0),
        (None, 0, 0, 0, [(65536, 1, 1)], 0, 0), (None, 0, 0, 0, [(1, 65536, 1)], 0, 0),
        (None, 0, 0, 0, [(1, 1, 65536)], 0, 0),
        (None, 0, 0, 0, [(1, 1, 2)] * 42, 0, 0), (None, 0, 0, 0, [(1, 1, 2)] * 43, 0, 0),
        (None, 0, 0, 1, [(1, 1, 2)] * 40, 0, 0), (None, 1, 0, 1, [(1, 1, 2)] * 40, 0, 0),
        (None, 1, 1, 1, [(1, 1, 2)] * 39, 3, 1), (None, 1, 1, 1, [(1, 1, 2)] * 38, 3, 1),
        ([(1, 1)] * 31, 0, 0, 0, None, 0, 0), ([(1, 1)] * 32, 0, 0, 0, None, 0, 0),
        ([(1, 1)] * 30, 0, 0, 1, None, 0, 1), ([(1, 1)] * 30, 0, 1, 1, None, 0, 1),
        ([(1, 1)], 0, 0, 0, None, 4, 0), (None, 0, 0, 0, None, 4, 1),
    ]
    for cfg in odd:
        for asn in [1, 65535, 65536, 2 ** 32 - 1] + AS_BAD:
            out.append((4, asn, 180, 0x0a000001, cfg))
    for v in [0, 1, 3, 5, 255, 256]:                     # other version octets
        out.append((v, 65001, 180, 1, base))
        out.append((v, 70000, 180, 1, cfgs[0]))
    return out


CAP_POOL = [
    [('Mp', 1, 1)], [('Mp', 1, 128), ('Mp', 2, 1)], [('RouteRefresh',)], [('CiscoRouteRefresh',)],
    [('EnhancedRR',)], [('GracefulRestart', 8, 120, [(1, 1, 128), (2, 1, 0)])], [('As4', 4200000000)],
    [('AddPath', [(1, 1, 3)]), ('AddPath', [(2, 1, 1), (1, 128, 2)])],
    [('ExtNexthop', [(1, 1, 2), (1, 128, 2)])], [('Llgr', [(1, 1, 128, 86400), (2, 1, 0, 16777215)])],
    [('Unknown', 3, b'\x01\x02'), ('Unknown', 131, b'\x00')],
]       # 11 kinds (the ten of the property text; the last holds unknown codes and Cisco multisession)


def live_family_keys():
    """keys of the live constants.AFI_SAFI_DICT that can go on the wire (used only to widen the
    generator: a family added to the module under test is swept like the reference ones)"""
    try:
        from yabgp.common import constants as C
        return [tuple(k) for k in C.AFI_SAFI_DICT
                if isinstance(k, tuple) and len(k) == 2 and all(isinstance(x, int) for x in k)
                and 0 <= k[0] <= 65535 and 0 <= k[1] <= 255]
    except Exception:
        return []


def named_families():
    """reference families + further live ones (no reference name: swept like unknown ones)"""
    return FAMILIES + [k for k in live_family_keys() if k not in REF_FAMILY_NAME]


def any_family(rng, p_known=0.7):
    r = rng.random()
    if r < p_known:
        return rng.choice(named_families())
    if r < p_known + (1 - p_known) / 2:
        return rng.choice(UNKNOWN_FAMILIES)
    return (rng.choice([0, 1, 2, 25, 16388, 65535, rng.randrange(65536)]), rng.randrange(256))


def rand_cap(rng):
    k = rng.randrange(12)
    n = rng.choice([0, 1, 1, 2, 3])
    if k == 0:
        return ('Mp',) + any_family(rng, 0.6)
    if k == 1:
        return rng.choice([('RouteRefresh',), ('CiscoRouteRefresh',), ('EnhancedRR',)])
    if k == 2:
        return ('GracefulRestart', rng.randrange(16), rng.choice([0, 1, 120, 4095]),
                [any_family(rng) + (rng.choice([0, 128, 255]),) for _ in range(n)])
    if k == 3:
        return ('As4', rng.choice(AS_OK + [0, 23456]))
    if k in (4, 5):         # mostly named families and defined modes (else: exception, see module text)
        return ('AddPath', [any_family(rng, 0.94) + (rng.choice([1, 2, 3] * 10 + [0, 4]),) for _ in range(n)])
    if k == 6:
        return ('ExtNexthop', [(lambda f: (f[0], rng.choice([f[1], f[1], 65535, 256 + f[1]])))(any_family(rng))
                               + (rng.choice([1, 2, 0, 65535]),) for _ in range(n)])
    if k == 7:
        return ('Llgr', [any_family(rng) + (rng.choice([0, 128]), rng.choice([0, 1, 86400, 2 ** 24 - 1]))
                         for _ in range(n)])
    if k == 8:
        return ('Unknown', 131, bytes(rng.randrange(256) for _ in range(rng.choice([0, 1, 2]))))
    code = rng.choice([c for c in [0, 3, 4, 6, 63, 66, 67, 68, 72, 127, 129, 130, 132, 255] if c not in ASSIGNED])
    return ('Unknown', code, bytes(rng.randrange(256) for _ in range(rng.choice([0, 1, 4, 9]))))


def gen_family_sweep(ctx):
    """every capability that carries <AFI, SAFI>, for every named family (reference + live) and the
    unknown ones: [(my_as, hold, id, params, family)]"""
    rng = ctx.rng
    out = []
    named = named_families()
    big = 4200000001

    def emit(f, caps, all_packagings=True):
        pk = packagings(caps, rng, False)
        for ps in (pk if all_packagings else pk[rng.randrange(2):][:1]):
            if fits(ps):
                out.append((rng.choice([1, 23456, 64512, 65535]), rng.choice(HOLD_OK), rng.choice(ID_OK), ps, f))

    # quick tier: four of the unknown families per seed, fewer packagings of the longer sequences
    unknown = UNKNOWN_FAMILIES if ctx.thorough else rng.sample(UNKNOWN_FAMILIES, 4)
    for f in named + unknown:
        a, s = f
        o1, o2 = rng.sample([x for x in FAMILIES if x != f], 2)
        emit(f, [('Mp', a, s)])
        emit(f, [('Mp', 1, 1), ('Mp', a, s), ('As4', big)])
        for v in (1, 2, 3):                               # every Send/Receive value
            emit(f, [('AddPath', [(a, s, v)])])
            emit(f, [('Mp', a, s), ('As4', big), ('AddPath', [(a, s, v)])], ctx.thorough or v == 3)
            emit(f, [('AddPath', [o1 + (rng.choice([1, 2, 3]),), (a, s, v)])], False)
            emit(f, [('AddPath', [(a, s, v)]), ('RouteRefresh',), ('AddPath', [o2 + (rng.choice([1, 2, 3]),)])], False)
        for v in (0, 4, 255):                             # undefined Send/Receive values
            emit(f, [('AddPath', [(a, s, v)])], False)
        emit(f, [('GracefulRestart', 0, 120, [(a, s, 128)])])
        emit(f, [('GracefulRestart', 15, 4095, [o1 + (0,), (a, s, 0)])], False)
        emit(f, [('Llgr', [(a, s, 128, 86400)])])
        emit(f, [('Llgr', [o2 + (0, 0), (a, s, 0, 2 ** 24 - 1)])], False)
        emit(f, [('ExtNexthop', [(a, s, 2)])])
        emit(f, [('ExtNexthop', [(a, s, 1), o1 + (2,)])], False)
        everything = [('Mp', a, s), ('RouteRefresh',), ('GracefulRestart', 8, 120, [(a, s, 128)]), ('As4', big),
                      ('AddPath', [(a, s, rng.choice([1, 2, 3]))]), ('ExtNexthop', [(a, s, 2)]),
                      ('Llgr', [(a, s, 128, 3600)])]
        emit(f, everything)
        emit(f, rng.sample(everything, len(everything)), ctx.thorough)
    # all named families at once, in table order, reversed and shuffled
    for fams in (list(named), list(reversed(named)), rng.sample(named, len(named))):
        for v in (1, 2, 3):
            emit(None, [('AddPath', [f + (v,) for f in fams])])
            emit(None, [('AddPath', [f + (v,)]) for f in fams], v == 3)
        emit(None, [('AddPath', [f + (rng.choice([1, 2, 3]),) for f in fams])])
        emit(None, [('Mp',) + f for f in fams])
        emit(None, [('GracefulRestart', 4, 300, [f + (rng.choice([0, 128]),) for f in fams])])
        emit(None, [('Llgr', [f + (rng.choice([0, 128]), rng.choice([0, 86400, 2 ** 24 - 1])) for f in fams])])
        emit(None, [('ExtNexthop', [f + (rng.choice([1, 2]),) for f in fams])])
    return out


def packagings(caps, rng, thorough):
    """one capability per parameter / all in one parameter / random split (with empty parameters)"""
    out = [[[c] for c in caps], [list(caps)]]
    for _ in range(2 if thorough else 1):
        ps, cur = [], []
        for c in caps:
            if rng.random() < 0.4:
                ps.append(cur)
                cur = []
            cur.append(c)
        ps.append(cur)
        if rng.random() < 0.3:
            ps.insert(rng.randrange(len(ps) + 1), [])
        out.append(ps)
    return out


def gen_reference(ctx):
    """[(my_as, hold, id, params)] with params: list of list of capability"""
    rng = ctx.rng
    out = []
    kinds = list(range(len(CAP_POOL)))
    subsets = [s for r in range(len(kinds) + 1) for s in itertools.combinations(kinds, r)]
    if not ctx.thorough:
        small = [s for s in subsets if len(s) <= 2]
        subsets = small + rng.sample([s for s in subsets if len(s) > 2], 60) + [tuple(kinds)]
    for s in subsets:                                    # every subset of kinds, orders, packagings
        orders = [list(s)]
        if len(s) > 1:
            orders.append(list(reversed(s)))
            orders.append(rng.sample(list(s), len(s)))
        if ctx.thorough and 1 < len(s) <= 3:
            orders = [list(p) for p in itertools.permutations(s)]
        for od in orders:
            caps = [c for i in od for c in CAP_POOL[i]]
            if rng.random() < 0.5:
                rng.shuffle(caps)
            for ps in packagings(caps, rng, ctx.thorough):
                if fits(ps):
                    out.append((rng.choice([1, 23456, 64512, 65535]), rng.choice(HOLD_OK), rng.choice(ID_OK), ps))
    for _ in range(3000 if ctx.thorough else 250):       # random capability sequences, repeats included
        caps = [rand_cap(rng) for _ in range(rng.choice([0, 1, 2, 3, 5, 8]))]
        for ps in packagings(caps, rng, False)[rng.randrange(3):][:1]:
            if fits(ps):
                out.append((rng.choice([1, 23456, 64512, 65535]), rng.choice(HOLD_OK), rng.choice(ID_OK), ps))
    out.append((65001, 180, 1, []))                      # no optional parameters at all
    out.append((65001, 0, 0xffffffff, [[]]))             # one empty capabilities parameter
    return [c[:4] for c in gen_family_sweep(ctx)] + out


def gen_malformed(ctx, seeds):
    """bodies derived from valid ones + hand-made wrong lengths / types; returns [(bytes, tag)]"""
    rng = ctx.rng
    out = []
    seeds = [s for s in seeds if len(s) > 10]
    pick = rng.sample(seeds, min(len(seeds), 120 if ctx.thorough else 12))
    for s in pick[:40 if ctx.thorough else 4]:           # every truncation
        for n in range(len(s)):
            out.append((s[:n], 'truncate'))
    for s in pick:                                       # 1-octet mutations
        pos = range(len(s)) if ctx.thorough else sorted(set(list(range(12)) + rng.sample(range(len(s)), min(len(s), 10))))
        for i in pos:
            if i >= len(s):
                continue
            for v in ({0, 1, 2, 4, 255, s[i] ^ 1, (s[i] + 1) & 255, (s[i] - 1) & 255} if ctx.thorough
                      else {(s[i] + 1) & 255, (s[i] - 1) & 255, rng.randrange(256)}):
                if v != s[i]:
                    out.append((s[:i] + bytes([v]) + s[i + 1:], 'mutate'))
    hdr = bytes([4]) + be(2, 65001) + be(2, 180) + be(4, 0x0a000001)
    hand = [
        b'', hdr[:9], hdr, hdr + b'\x00', hdr + b'\x00' + b'\x02\x02\x02\x00',     # optlen 0 with trailing params
        hdr + b'\x04' + b'\x02\x02\x02\x00' + b'\x02\x02\x46\x00',                # optlen smaller than what follows
        hdr + b'\x09' + b'\x02\x02\x02\x00',                                        # optlen larger
        hdr + b'\x01\x02', hdr + b'\x02\x02\x00', hdr + b'\x02\x01\x00', hdr + b'\x02\x03\x00',
        hdr + b'\x02\x02\x05', hdr + b'\x03\x02\x01\x41', hdr + b'\x04\x02\x02\x41\x04',
        hdr + b'\x05\x02\x03\x41\x01\x00', hdr + b'\x07\x02\x05\x41\x03\x00\x00\x01',
        hdr + b'\x09\x02\x07\x41\x05\x00\x00\x00\x01\x00',
        hdr + b'\x08\x02\x06\x41\x04\x00\x00\x00\x00',                             # AS4 = 0
        bytes([4, 0, 0]) + hdr[3:] + b'\x08\x02\x06\x41\x04\x00\x01\x00\x00',       # My AS 0 with AS4 present
        bytes([3]) + hdr[1:] + b'\x00', bytes([5]) + hdr[1:] + b'\x00', bytes([4, 0, 0]) + hdr[3:] + b'\x00',
        hdr[:5] + b'\x00\x00\x00\x00' + b'\x00',                                    # identifier 0
        hdr + b'\x07\x02\x05\x01\x03\x00\x01\x00', hdr + b'\x09\x02\x07\x01\x05\x00\x01\x00\x01\x00',
        hdr + b'\x08\x02\x06\x45\x04\x00\x03\x01\x03',                             # add-path unknown family
        hdr + b'\x08\x02\x06\x45\x04\x00\x01\x01\x00', hdr + b'\x08\x02\x06\x45\x04\x00\x01\x01\x04',
        hdr + b'\x07\x02\x05\x45\x03\x00\x01\x01', hdr + b'\x09\x02\x07\x45\x05\x00\x01\x01\x03\x00',
        hdr + b'\x04\x02\x02\x45\x00',
        hdr + b'\x0c\x02\x0a\x45\x08\x00\x01\x01\x03\x00\x09\x01\x01',           # second family unknown
        hdr + b'\x0a\x02\x08\x47\x06\x00\x01\x01\x00\x00\x00', hdr + b'\x0c\x02\x0a\x47\x08\x00\x01\x01\x00\x00\x00\x01\xff',
        hdr + b'\x10\x02\x0e\x47\x07\x00\x01\x01\x00\x00\x00\x01\x47\x03\x00\x02\x01',  # LLGR twice: overwritten
        hdr + b'\x09\x02\x07\x05\x05\x00\x01\x00\x01\x00', hdr + b'\x0b\x02\x09\x05\x07\x00\x01\x00\x01\x00\x02\x00',
        hdr + b'\x0e\x02\x0c\x05\x06\x00\x01\x00\x01\x00\x02\x05\x00\x05\x00',       # ext nexthop then two empty
        hdr + b'\x04\x01\x02\x00\x00', hdr + b'\x04\x00\x02\x00\x00', hdr + b'\x04\x03\x00\x02\x00',
        hdr + b'\x04\xff\x02\x02\x00', hdr + b'\x08\x02\x02\x02\x00\x01\x02\x02\x00',
        hdr + b'\x06\x02\x04\x02\x05\x46\x00', hdr + b'\x06\x02\x04\x02\x00\x46\x09',
        hdr + b'\x08\x02\x02\x02\x00\x02\x02\x46',                                  # parameter cut inside a capability
        hdr + b'\x0a\x02\x03\x02\x00\x46\x00\x02\x02\x80\x00',                      # capability header cut by the parameter
        hdr + b'\x0a\x02\x08\x03\x01\x00\x03\x01\x01\xc8\x00', hdr + b'\x08\x02\x06\x03\x00\x03\x02\x01\x02',
    ]
    out += [(b, 'hand') for b in hand]
    for _ in range(2000 if ctx.thorough else 150):       # random tails behind a valid fixed part
        n = rng.choice([1, 2, 3, 4, 6, 8, 12, 20])
        tail = bytes(rng.choice([0, 1, 2, 2, 2, 4, 5, 6, 64, 65, 69, 70, 71, 128, 131, rng.randrange(256)])
                     for _ in range(n))
        out.append((hdr + bytes([len(tail)]) + tail, 'random'))
    return out


# ------------------------------------------------------------------------------------------
# the check
# ------------------------------------------------------------------------------------------
def coq_run(ctx, cases):
    """cases: [(model expression, canonical implementation value, description)] -> mismatches"""
    if not ctx.coq_ok:
        return []
    shards = []
    for i in range(0, len(cases), PER_SHARD):
        body = ';\n'.join('(%s, %s)' % (c[0], coq_sx(c[1])) for c in cases[i:i + PER_SHARD])
        shards.append('Definition cases : list (sx * sx) := [\n%s\n].\nEval vm_compute in (mismatches cases).\n' % body)
    mism = []
    for k, (rc, out) in enumerate(common.coq_eval_shards(ctx.prop + '_open', shards, imports=IMPORTS)):
        idx = common.parse_nats(out)
        if rc != 0 or idx is None:
            mism.append({'what': 'OPEN case file %d does not evaluate: %s' % (k, common.first_error(out))})
            continue
        for i in idx:
            c = cases[k * PER_SHARD + i]
            mism.append({'what': 'model and implementation differ on %s' % (repr(c[2])[:300],),
                         'input': c[2], 'impl': c[1], 'model_expr': c[0][:2000]})
    return mism


def live_consts():
    from yabgp.message.open import Capability
    from yabgp.common import constants as C
    return [[getattr(Capability, n) for n in CODE_NAMES],
            [list(k) for k in C.AFI_SAFI_DICT], list(C.ADD_PATH_ACT_DICT)]


def live_const_names():
    """items of the two live dictionaries, in order (form of YOpenNames.sx_const_names)"""
    from yabgp.common import constants as C

    def nm(v):
        return Bytes(v.encode('utf-8')) if isinstance(v, str) else Bytes(b'\xff')
    return [[[int(k[0]), int(k[1]), nm(v)] for k, v in C.AFI_SAFI_DICT.items()],
            [[int(k), nm(v)] for k, v in C.ADD_PATH_ACT_DICT.items()]]


def ref_names_rendered():
    """REF_FAMILY_NAME / REF_MODE_NAME in the form of RefOpenNames.sx_ref_names"""
    return [[[a, s_, Bytes(n.encode())] for (a, s_), n in REF_FAMILY_NAME.items()],
            [[k, Bytes(n.encode())] for k, n in REF_MODE_NAME.items()]]


def want_parse(version, asn, hold, bid, dic):
    """expected canonical value of impl_parse(body, named=True) for a decodable OPEN"""
    nd = named_dict(dic)
    if nd is None:
        return [2]          # ADD-PATH entry without a reference name: KeyError today (see module text)
    w = [version, asn, hold, bid, nd]
    return [0, [w, [w]]]


def family_coverage(refs):
    """distinct <AFI, SAFI> per capability kind over the reference stream"""
    cov = {'Mp': set(), 'AddPath': set(), 'GracefulRestart': set(), 'Llgr': set(), 'ExtNexthop': set()}
    modes = set()
    for (_a, _h, _i, ps) in refs:
        for p_ in ps:
            for c in p_:
                if c[0] == 'Mp':
                    cov['Mp'].add((c[1], c[2]))
                elif c[0] == 'AddPath':
                    for a, s_, v in c[1]:
                        cov['AddPath'].add((a, s_))
                        modes.add(((a, s_), v))
                elif c[0] == 'GracefulRestart':
                    cov['GracefulRestart'].update((x[0], x[1]) for x in c[3])
                elif c[0] in ('Llgr', 'ExtNexthop'):
                    cov[c[0]].update((x[0], x[1]) for x in c[1])
    named = named_families()
    out = {}
    for k, v in cov.items():
        out[k] = {'distinct': len(v), 'named_covered': sum(1 for f in named if f in v),
                  'unknown_covered': sum(1 for f in UNKNOWN_FAMILIES if f in v)}
    out['named_families'] = len(named)
    out['addpath_family_x_mode_named'] = sum(1 for f in named for v in (1, 2, 3) if (f, v) in modes)
    return out


def run(ctx):
    rng = ctx.rng
    viol, cases, samples = [], [], []
    stats = {}

    def violation(what, inp):
        if len(viol) < 50:
            viol.append({'what': what, 'input': inp, 'known': None})

    # --- constants copied by the model
    cases.append(('sx_consts', live_consts(), ('constants',)))
    cases.append(('sx_const_names', live_const_names(), ('constant-names: AFI_SAFI_DICT / ADD_PATH_ACT_DICT items',)))
    cases.append(('sx_ref_names', ref_names_rendered(), ('reference-names: harness table vs spec/RefOpenNames.v',)))

    # --- construct: correspondence + round-trip oracle
    cons = gen_construct(ctx)
    bodies = []
    n_ok = n_noopt = 0
    for con in cons:
        (ver, asn, hold, bid, cfg), in_coq = con[:5], (con[5] if len(con) > 5 else True)
        d = cfg_dict(cfg, rng)
        r = impl_construct(ver, asn, hold, bid, d)
        desc = ('construct', ver, asn, hold, bid, repr(d))
        if in_coq:
            cases.append(('sx_res SB (open_construct %d %d %d %d %s)' % (ver, asn, hold, bid, coq_cfg(cfg)), r, desc))
        if r[0] != 0:
            continue
        m = bytes(r[1])
        n_ok += 1
        if not (m[:16] == b'\xff' * 16 and struct.unpack('!HB', m[16:19]) == (len(m), 1)):
            violation('constructed OPEN is not framed as a type-1 message', desc)
            continue
        body = m[19:]
        if in_coq:
            bodies.append(body)
        if ver != 4 or not (1 <= asn < 2 ** 32):
            continue
        # the property: decoding returns the same values (attributes and return value)
        wantp = want_parse(4, asn, hold, bid, expected_of_cfg(asn, cfg))
        want = wantp[1][0] if wantp[0] == 0 else None
        got = impl_parse(body, named=True)
        if body[9] == 0:
            n_noopt += 1
        if got != wantp:
            what = 'OPEN round trip: construct then parse does not give back the values'
            if got[0] == 0 and got[1][0] == want and got[1][1] == []:
                what = ('OPEN round trip: Open.parse returns None for an OPEN without optional parameters '
                        '(attributes are correct); apply build/proposed/c14_open_parse_return.diff')
            violation(what, {'construct': desc, 'body': body.hex(), 'parse': repr(got)[:600], 'want': repr(want)[:600]})
        # C05 facts on the wire
        my_as = struct.unpack('!H', body[1:3])[0]
        has65 = b'\x02\x06\x41\x04' + be(4, asn) in body[10:]
        if my_as != (asn if asn <= 65535 else 23456) or (asn > 65535 and not has65):
            violation('My AS field / capability 65 do not follow the AS_TRANS rule', desc)
    stats['construct_cases'] = len(cons)
    stats['construct_ok'] = n_ok
    stats['construct_without_optional_parameters'] = n_noopt
    samples.append(['construct', cons[5][1], cons[5][2], repr(cons[5][4])])

    # --- parse: implementation's own messages
    seen = set()
    for b in bodies:
        if b not in seen:
            seen.add(b)
            cases.append(('sx_res sx_open_parse_n (open_parse %s)' % coq_bytes(b), impl_parse(b, named=True),
                          ('parse-own', b.hex())))
    stats['parse_own_distinct'] = len(seen)

    # --- parse: reference-encoded messages (correspondence + oracle)
    refs = gen_reference(ctx)
    ref_bodies = []
    n_ref = n_ref_exc = 0
    for (my_as, hold, bid, ps) in refs:
        body = ref_open_body(4, my_as, hold, bid, ps)
        if body in seen:
            continue
        seen.add(body)
        ref_bodies.append(body)
        n_ref += 1
        got = impl_parse(body, named=True)
        cases.append(('sx_res sx_open_parse_n (open_parse %s)' % coq_bytes(body), got, ('parse-reference', body.hex())))
        asn, dic = expected(my_as, [c for p in ps for c in p])
        wantp = want_parse(4, asn, hold, bid, dic)
        want = wantp[1][0] if wantp[0] == 0 else None
        if wantp[0] == 2:
            n_ref_exc += 1
        if got != wantp:
            what = 'reference-encoded OPEN does not decode to the expected values'
            if got[0] == 0 and got[1][0] == want and got[1][1] == []:
                what = ('Open.parse returns None for a reference OPEN without optional parameters '
                        '(attributes are correct); apply build/proposed/c14_open_parse_return.diff')
            elif wantp[0] == 2:
                what = ('reference-encoded OPEN with an ADD-PATH entry that has no reference name (unknown family '
                        'or undefined Send/Receive value) is not refused the way the unchanged code refuses it')
            elif got[0] == 0 and wantp[0] == 0 and got[1][0][:4] == want[:4] and \
                    [x for i, x in enumerate(got[1][0][4]) if i != 7] == [x for i, x in enumerate(want[4]) if i != 7]:
                what = ("reference-encoded OPEN: the 'add_path' entries of the decoded dictionary do not carry the "
                        "reference family / mode names (everything else is as expected)")
            violation(what, {'params': repr(ps)[:800], 'body': body.hex(), 'parse': repr(got)[:600],
                             'want': repr(wantp)[:600]})
    stats['parse_reference_cases'] = n_ref
    stats['parse_reference_expected_exception'] = n_ref_exc
    stats['family_coverage'] = family_coverage(refs)
    stats['reference_kinds'] = len(CAP_POOL)
    samples.append(['parse-reference', ref_bodies[len(ref_bodies) // 2].hex()])

    # --- parse: malformed stream (correspondence only; the property says nothing about these)
    mal = gen_malformed(ctx, sorted(seen, key=lambda b: (len(b), b))[::7] + ref_bodies[:5])
    n_mal = 0
    kinds = {}
    for b, tag in mal:
        if b in seen:
            continue
        seen.add(b)
        n_mal += 1
        got = impl_parse(b, named=True)
        key = '%s:%s' % (tag, {0: 'value', 1: 'bgp-error', 2: 'exception'}[got[0]])
        kinds[key] = kinds.get(key, 0) + 1
        cases.append(('sx_res sx_open_parse_n (open_parse %s)' % coq_bytes(b), got, ('parse-malformed', tag, b.hex())))
    stats['parse_malformed_cases'] = n_mal
    stats['parse_malformed_outcomes'] = kinds
    samples.append(['parse-malformed', mal[len(mal) // 3][0].hex()])

    mism = coq_run(ctx, cases)
    stats['open_correspondence_cases'] = len(cases)
    return {'evaluations': len(cases), 'distinct': len(seen) + n_ok,
            'rule': 'OPEN: every subset of the capability-dictionary keys x AS/hold/id boundaries for construct; '
                    'own, reference-encoded (subsets, orders, packagings; every <AFI,SAFI> capability for every '
                    'named and some unknown families, ADD-PATH with every Send/Receive value, names from the '
                    'reference table) and malformed bodies for parse',
            'samples': samples, 'mismatches': mism, 'violations': viol, 'extra': {'open': stats}}
