"""C14, OPEN half — yabgp/message/open.py against coq/model/YOpen.v and coq/spec/RefOpen.v.

run(ctx) (merged into the C14 result by c14.py):
  correspondence  model == implementation, evaluated inside Coq, for
      * the constants the model copies (Capability.<CODE>, AFI_SAFI_DICT / ADD_PATH_ACT_DICT keys)
      * Open.construct: every subset of the 7 capability-dictionary keys x AS / hold / id boundaries,
        out-of-range values (struct.error / KeyError -> PyExc)
      * Open.parse (attributes AND return value): the implementation's own OPENs, reference-encoded
        OPENs (python transcription of spec/RefOpen.v: capability subsets, orders, packagings) and a
        malformed stream (truncations, wrong lengths, unknown parameter types, 1-octet mutations)
  oracle (implementation only, no model)
      * construct -> parse returns version 4, the true AS, hold, id, the configured capability set,
        through the attributes and through the return value
      * reference-encoded OPEN decodes to the expected dictionary
"""
import ast
import itertools
import struct

import env  # noqa: F401
import common
from session import Bytes, coq_sx, coq_bytes

IMPORTS = 'From YV Require Import lib.Base gen.Consts model.YMsg model.YOpen.\n'
PER_SHARD = 200

ADDPATH_STR = {0: None, 1: 'ipv4_receive', 2: 'ipv4_send', 3: 'ipv4_both', 4: 'ipv6_both'}
CODE_NAMES = ['MULTIPROTOCOL_EXTENSIONS', 'ROUTE_REFRESH', 'EXTENDED_NEXT_HOP', 'GRACEFUL_RESTART',
              'FOUR_BYTES_ASN', 'ADD_PATH', 'ENHANCED_ROUTE_REFRESH', 'LLGR', 'CISCO_ROUTE_REFRESH',
              'CISCO_MULTISESSION_BGP']
FAMILIES = [(1, 1), (1, 2), (2, 1), (1, 4), (2, 4), (1, 133), (1, 128), (2, 128), (25, 70), (16388, 71),
            (1, 73), (2, 133)]
ASSIGNED = [1, 2, 5, 64, 65, 69, 70, 71, 128, 131]


# ------------------------------------------------------------------------------------------
# canonical rendering of implementation values (mirrors YOpen.sx_*)
# ------------------------------------------------------------------------------------------
def render_capa(d):
    from yabgp.common import constants as C
    fam_of = {}
    for k, v in C.AFI_SAFI_DICT.items():
        fam_of.setdefault(v, k)
    act_of = {}
    for k, v in C.ADD_PATH_ACT_DICT.items():
        act_of.setdefault(v, k)
    d = dict(d)

    def flag(k):
        if k not in d:
            return 0
        return 1 if d.pop(k) is True else 99

    def optlist(k, f):
        if k not in d:
            return []
        return [[f(x) for x in d.pop(k)]]

    out = [flag('four_bytes_as'),
           optlist('afi_safi', lambda x: [int(x[0]), int(x[1])]),
           flag('route_refresh'), flag('cisco_route_refresh'), flag('graceful_restart'),
           flag('cisco_multi_session'), flag('enhanced_route_refresh'),
           optlist('add_path', lambda x: (list(fam_of[x['afi_safi']]) + [act_of[x['send/receive']]]
                                          if set(x) == {'afi_safi', 'send/receive'} else [999])),
           optlist('LLGR', lambda x: (list(x['afi_safi']) + [x['time']]
                                      if set(x) == {'afi_safi', 'time'} else [999])),
           optlist('ext_nexthop', lambda x: (list(x['afi_safi']) + [x['nexthop_afi']]
                                             if set(x) == {'afi_safi', 'nexthop_afi'} else [999]))]
    other = []
    for k, v in d.items():        # insertion order
        try:
            code = int(k)
            val = ast.literal_eval(v)
            assert isinstance(val, bytes) and str(code) == k
            other.append([code, Bytes(val)])
        except Exception:
            other.append([10 ** 9, Bytes(b'')])
    out.append(other)
    return out


def render_attrs(version, asn, hold, bgp_id, capa):
    import netaddr
    return [version, asn, hold, int(netaddr.IPAddress(bgp_id)), render_capa(capa)]


def impl_parse(body):
    """canonical value of Open().parse(body): [attributes, return value]"""
    from yabgp.message.open import Open
    from yabgp.common import exception as excep
    o = Open()
    try:
        ret = o.parse(body)
    except excep.NotificationSent as e:
        return [1, e.error, e.sub_error]
    except Exception:
        return [2]
    attrs = render_attrs(o.version, o.asn, o.hold_time, o.bgp_id, o.capa_dict)
    if ret is None:
        r = []
    elif isinstance(ret, dict) and set(ret) == {'version', 'asn', 'hold_time', 'bgp_id', 'capabilities'}:
        r = [render_attrs(ret['version'], ret['asn'], ret['hold_time'], ret['bgp_id'], ret['capabilities'])]
    else:
        r = [[999]]
    return [0, [attrs, r]]


def cfg_dict(cfg, rng):
    """python my_capability dictionary of a model configuration
    cfg = (afi_safi|None, cisco_rr, rr, four, ext_nh|None, add_path 0..4, err)"""
    afi_safi, cisco, rr, four, ext, ap, err = cfg
    d = {}
    if afi_safi is not None:
        d['afi_safi'] = [tuple(x) for x in afi_safi]
    for k, v in (('cisco_route_refresh', cisco), ('route_refresh', rr), ('four_bytes_as', four),
                 ('enhanced_route_refresh', err)):
        if v:
            d[k] = True
        elif rng.random() < 0.5:
            d[k] = rng.choice([False, None])
    if ext is not None:
        d['ext_nexthop'] = [{'afi_safi': [a, s], 'nexthop_afi': n} for (a, s, n) in ext]
    if ap:
        d['add_path'] = ADDPATH_STR[ap]
    elif rng.random() < 0.5:
        d['add_path'] = None
    if rng.random() < 0.3:
        d['graceful_restart'] = rng.choice([True, False])       # keys construct ignores
    if rng.random() < 0.3:
        d['cisco_multi_session'] = True
    return d


def coq_cfg(cfg):
    afi_safi, cisco, rr, four, ext, ap, err = cfg
    b = lambda x: 'true' if x else 'false'   # noqa: E731
    a = 'None' if afi_safi is None else '(Some [%s])' % '; '.join('(%d, %d)' % tuple(x) for x in afi_safi)
    e = 'None' if ext is None else '(Some [%s])' % '; '.join('(%d, %d, %d)' % tuple(x) for x in ext)
    return '(mkcfg %s %s %s %s %s %d %s)' % (a, b(cisco), b(rr), b(four), e, ap, b(err))


def impl_construct(version, asn, hold, bgp_id, d):
    from yabgp.message.open import Open
    try:
        return [0, Bytes(Open(version=version, asn=asn, hold_time=hold, bgp_id=bgp_id).construct(dict(d)))]
    except Exception:
        return [2]


# ------------------------------------------------------------------------------------------
# python transcription of spec/RefOpen.v (reference encoder) and of the expected dictionary
# ------------------------------------------------------------------------------------------
def be(k, n):
    return int(n).to_bytes(k, 'big')


def cap_tlv(c):
    k = c[0]
    if k == 'Mp':
        return 1, be(2, c[1]) + bytes([0, c[2]])
    if k == 'RouteRefresh':
        return 2, b''
    if k == 'CiscoRouteRefresh':
        return 128, b''
    if k == 'EnhancedRR':
        return 70, b''
    if k == 'GracefulRestart':
        return 64, be(2, c[1] * 4096 + c[2]) + b''.join(be(2, a) + bytes([s, f]) for a, s, f in c[3])
    if k == 'As4':
        return 65, be(4, c[1])
    if k == 'AddPath':
        return 69, b''.join(be(2, a) + bytes([s, v]) for a, s, v in c[1])
    if k == 'ExtNexthop':
        return 5, b''.join(be(2, a) + be(2, s) + be(2, n) for a, s, n in c[1])
    if k == 'Llgr':
        return 71, b''.join(be(2, a) + bytes([s, f]) + be(3, t) for a, s, f, t in c[1])
    if k == 'Unknown':
        return c[1], bytes(c[2])
    raise ValueError(c)


def enc_tlv(t):
    return bytes([t[0], len(t[1])]) + t[1]


def enc_param(ts):
    v = b''.join(enc_tlv(t) for t in ts)
    return bytes([2, len(v)]) + v


def ref_open_body(version, my_as, hold, bgp_id, params):
    p = b''.join(enc_param([cap_tlv(c) for c in caps]) for caps in params)
    return bytes([version]) + be(2, my_as) + be(2, hold) + be(4, bgp_id) + bytes([len(p)]) + p


def fits(params):
    tot = 0
    for caps in params:
        n = 0
        for c in caps:
            v = cap_tlv(c)[1]
            if len(v) > 255:
                return False
            n += 2 + len(v)
        if n > 255:
            return False
        tot += 2 + n
    return tot <= 255


def expected(my_as, caps):
    """what the receiver must report for the capability sequence (transcription of
    OpenProofs.dict_of_caps): [asn, canonical dictionary]"""
    four = rr = crr = gr = ms = err = 0
    afi_safi = add_path = llgr = ext = None
    other = []
    asn = my_as
    for c in caps:
        k = c[0]
        if k == 'Mp':
            afi_safi = (afi_safi or []) + [[c[1], c[2]]]
        elif k == 'RouteRefresh':
            rr = 1
        elif k == 'CiscoRouteRefresh':
            crr = 1
        elif k == 'EnhancedRR':
            err = 1
        elif k == 'GracefulRestart':
            gr = 1
        elif k == 'As4':
            four, asn = 1, c[1]
        elif k == 'AddPath':
            add_path = (add_path or []) + [[a, s, v] for a, s, v in c[1]]
        elif k == 'ExtNexthop':
            ext = [[a, s, n] for a, s, n in c[1]]
        elif k == 'Llgr':
            llgr = [[a, s, t] for a, s, f, t in c[1]]
        elif k == 'Unknown' and c[1] == 131:
            ms = 1
        elif k == 'Unknown':
            for e in other:
                if e[0] == c[1]:
                    e[1] = Bytes(c[2])
                    break
            else:
                other.append([c[1], Bytes(c[2])])
    o = lambda x: [] if x is None else [x]   # noqa: E731
    return asn, [four, o(afi_safi), rr, crr, gr, ms, err, o(add_path), o(llgr), o(ext), other]


def expected_of_cfg(asn, cfg):
    afi_safi, cisco, rr, four, ext, ap, err = cfg
    o = lambda x: [] if x is None else [x]   # noqa: E731
    return [1 if (asn > 65535 or four) else 0,
            o([list(x) for x in afi_safi] if afi_safi else None),
            int(bool(rr)), int(bool(cisco)), 0, 0, int(bool(err)),
            o([[1, 1, ap]] if ap else None), [], o([list(x) for x in ext] if ext is not None else None), []]


# ------------------------------------------------------------------------------------------
# generators
# ------------------------------------------------------------------------------------------
AS_OK = [1, 2, 255, 256, 23455, 23456, 23457, 65534, 65535, 65536, 65537, 131072, 2 ** 31 - 1, 2 ** 31,
         2 ** 32 - 2, 2 ** 32 - 1]
AS_BAD = [2 ** 32, 2 ** 32 + 1]
HOLD_OK = [0, 1, 2, 3, 90, 180, 255, 256, 65534, 65535]
ID_OK = [0, 1, 0x01010101, 0x0a000006, 0x7fffffff, 0x80000000, 0xffffffff]


def gen_cfgs(ctx):
    rng = ctx.rng
    afl = [[(1, 1)], [(1, 128), (1, 1)], list(FAMILIES), [(65535, 255)], [(0, 0)], [(1, 1)] * 3]
    exl = [[(1, 1, 2)], [(1, 1, 2), (1, 128, 2)], [], [(65535, 65535, 65535)], [(1, 4, 2)] * 7]
    cfgs = []
    for bits in itertools.product([0, 1], repeat=7):
        a, c, r, f, e, p, x = bits
        cfgs.append((rng.choice(afl) if a else None, c, r, f, rng.choice(exl) if e else None,
                     rng.choice([1, 2, 3]) if p else 0, x))
    return cfgs


def gen_construct(ctx):
    """[(version, asn, hold, id, cfg)]"""
    rng = ctx.rng
    out = []
    cfgs = gen_cfgs(ctx)
    for cfg in cfgs:                                     # every key subset x AS boundaries
        for asn in (AS_OK if ctx.thorough else [1, 23456, 65535, 65536, 2 ** 32 - 1] + rng.sample(AS_OK, 2)):
            out.append((4, asn, rng.choice(HOLD_OK), rng.choice(ID_OK), cfg))
    base = cfgs[-1]
    for hold in (range(0, 65536, 1 if ctx.thorough else 257)):
        # thorough: every hold time through the oracle, every 16th also through the model
        out.append((4, rng.choice(AS_OK), hold, rng.choice(ID_OK), rng.choice(cfgs),
                    (not ctx.thorough) or hold % 16 == 0 or hold > 65500))
    for hold in HOLD_OK + [65536, 70000]:
        for bid in ID_OK + [2 ** 32]:
            out.append((4, rng.choice(AS_OK), hold, bid, base))
    # empty / long / out-of-range lists and values
    odd = [
        ([], 0, 0, 0, None, 0, 0), ([], 1, 0, 0, [], 0, 0), (None, 0, 0, 0, [], 0, 0),
        ([(65536, 1)], 0, 0, 0, None, 0, 0), ([(1, 256)], 0, 0, 0, None, 0, 0),
        ([(1, 1), (1, 256)], 1, 1, 1, None, 0, 0),
        (None, 0, 0, 0, [(65536, 1, 1)], 0, 0), (None, 0, 0, 0, [(1, 65536, 1)], 0, 0),
        (None, 0, 0, 0, [(1, 1, 65536)], 0, 0),
        (None, 0, 0, 0, [(1, 1, 2)] * 42, 0, 0), (None, 0, 0, 0, [(1, 1, 2)] * 43, 0, 0),
        (None, 0, 0, 1, [(1, 1, 2)] * 40, 0, 0), (None, 1, 0, 1, [(1, 1, 2)] * 40, 0, 0),
        (None, 1, 1, 1, [(1, 1, 2)] * 39, 3, 1), (None, 1, 1, 1, [(1, 1, 2)] * 38, 3, 1),
        ([(1, 1)] * 31, 0, 0, 0, None, 0, 0), ([(1, 1)] * 32, 0, 0, 0, None, 0, 0),
        ([(1, 1)] * 30, 0, 0, 1, None, 0, 1), ([(1, 1)] * 30, 0, 1, 1, None, 0, 1),
        ([(1, 1)], 0, 0, 0, None, 4, 0), (None, 0, 0, 0, None, 4, 1),
    ]
    for cfg in odd:
        for asn in [1, 65535, 65536, 2 ** 32 - 1] + AS_BAD:
            out.append((4, asn, 180, 0x0a000001, cfg))
    for v in [0, 1, 3, 5, 255, 256]:                     # other version octets
        out.append((v, 65001, 180, 1, base))
        out.append((v, 70000, 180, 1, cfgs[0]))
    return out


CAP_POOL = [
    [('Mp', 1, 1)], [('Mp', 1, 128), ('Mp', 2, 1)], [('RouteRefresh',)], [('CiscoRouteRefresh',)],
    [('EnhancedRR',)], [('GracefulRestart', 8, 120, [(1, 1, 128), (2, 1, 0)])], [('As4', 4200000000)],
    [('AddPath', [(1, 1, 3)]), ('AddPath', [(2, 1, 1), (1, 128, 2)])],
    [('ExtNexthop', [(1, 1, 2), (1, 128, 2)])], [('Llgr', [(1, 1, 128, 86400), (2, 1, 0, 16777215)])],
    [('Unknown', 3, b'\x01\x02'), ('Unknown', 131, b'\x00')],
]       # 11 kinds (the ten of the property text; the last holds unknown codes and Cisco multisession)


def rand_cap(rng):
    k = rng.randrange(12)
    fam = lambda: rng.choice(FAMILIES)   # noqa: E731
    n = rng.choice([0, 1, 1, 2, 3])
    if k == 0:
        return ('Mp', rng.choice([0, 1, 2, 25, 16388, 65535]), rng.choice([0, 1, 2, 4, 128, 133, 255]))
    if k == 1:
        return rng.choice([('RouteRefresh',), ('CiscoRouteRefresh',), ('EnhancedRR',)])
    if k == 2:
        return ('GracefulRestart', rng.randrange(16), rng.choice([0, 1, 120, 4095]),
                [(rng.choice([1, 2, 65535]), rng.randrange(256), rng.choice([0, 128, 255])) for _ in range(n)])
    if k == 3:
        return ('As4', rng.choice(AS_OK + [0, 23456]))
    if k in (4, 5):
        return ('AddPath', [fam() + (rng.choice([1, 2, 3]),) for _ in range(n)])
    if k == 6:
        return ('ExtNexthop', [(rng.choice([1, 2, 65535]), rng.choice([1, 4, 128, 65535]),
                                rng.choice([1, 2, 0])) for _ in range(n)])
    if k == 7:
        return ('Llgr', [(rng.choice([1, 2, 65535]), rng.randrange(256), rng.choice([0, 128]),
                          rng.choice([0, 1, 86400, 2 ** 24 - 1])) for _ in range(n)])
    if k == 8:
        return ('Unknown', 131, bytes(rng.randrange(256) for _ in range(rng.choice([0, 1, 2]))))
    code = rng.choice([c for c in [0, 3, 4, 6, 63, 66, 67, 68, 72, 127, 129, 130, 132, 255] if c not in ASSIGNED])
    return ('Unknown', code, bytes(rng.randrange(256) for _ in range(rng.choice([0, 1, 4, 9]))))


def packagings(caps, rng, thorough):
    """one capability per parameter / all in one parameter / random split (with empty parameters)"""
    out = [[[c] for c in caps], [list(caps)]]
    for _ in range(2 if thorough else 1):
        ps, cur = [], []
        for c in caps:
            if rng.random() < 0.4:
                ps.append(cur)
                cur = []
            cur.append(c)
        ps.append(cur)
        if rng.random() < 0.3:
            ps.insert(rng.randrange(len(ps) + 1), [])
        out.append(ps)
    return out


def gen_reference(ctx):
    """[(my_as, hold, id, params)] with params: list of list of capability"""
    rng = ctx.rng
    out = []
    kinds = list(range(len(CAP_POOL)))
    subsets = [s for r in range(len(kinds) + 1) for s in itertools.combinations(kinds, r)]
    if not ctx.thorough:
        small = [s for s in subsets if len(s) <= 2]
        subsets = small + rng.sample([s for s in subsets if len(s) > 2], 60) + [tuple(kinds)]
    for s in subsets:                                    # every subset of kinds, orders, packagings
        orders = [list(s)]
        if len(s) > 1:
            orders.append(list(reversed(s)))
            orders.append(rng.sample(list(s), len(s)))
        if ctx.thorough and 1 < len(s) <= 3:
            orders = [list(p) for p in itertools.permutations(s)]
        for od in orders:
            caps = [c for i in od for c in CAP_POOL[i]]
            if rng.random() < 0.5:
                rng.shuffle(caps)
            for ps in packagings(caps, rng, ctx.thorough):
                if fits(ps):
                    out.append((rng.choice([1, 23456, 64512, 65535]), rng.choice(HOLD_OK), rng.choice(ID_OK), ps))
    for _ in range(3000 if ctx.thorough else 250):       # random capability sequences, repeats included
        caps = [rand_cap(rng) for _ in range(rng.choice([0, 1, 2, 3, 5, 8]))]
        for ps in packagings(caps, rng, False)[rng.randrange(3):][:1]:
            if fits(ps):
                out.append((rng.choice([1, 23456, 64512, 65535]), rng.choice(HOLD_OK), rng.choice(ID_OK), ps))
    out.append((65001, 180, 1, []))                      # no optional parameters at all
    out.append((65001, 0, 0xffffffff, [[]]))             # one empty capabilities parameter
    return out


def gen_malformed(ctx, seeds):
    """bodies derived from valid ones + hand-made wrong lengths / types; returns [(bytes, tag)]"""
    rng = ctx.rng
    out = []
    seeds = [s for s in seeds if len(s) > 10]
    pick = rng.sample(seeds, min(len(seeds), 120 if ctx.thorough else 12))
    for s in pick[:40 if ctx.thorough else 4]:           # every truncation
        for n in range(len(s)):
            out.append((s[:n], 'truncate'))
    for s in pick:                                       # 1-octet mutations
        pos = range(len(s)) if ctx.thorough else sorted(set(list(range(12)) + rng.sample(range(len(s)), min(len(s), 10))))
        for i in pos:
            if i >= len(s):
                continue
            for v in ({0, 1, 2, 4, 255, s[i] ^ 1, (s[i] + 1) & 255, (s[i] - 1) & 255} if ctx.thorough
                      else {(s[i] + 1) & 255, (s[i] - 1) & 255, rng.randrange(256)}):
                if v != s[i]:
                    out.append((s[:i] + bytes([v]) + s[i + 1:], 'mutate'))
    hdr = bytes([4]) + be(2, 65001) + be(2, 180) + be(4, 0x0a000001)
    hand = [
        b'', hdr[:9], hdr, hdr + b'\x00', hdr + b'\x00' + b'\x02\x02\x02\x00',     # optlen 0 with trailing params
        hdr + b'\x04' + b'\x02\x02\x02\x00' + b'\x02\x02\x46\x00',                # optlen smaller than what follows
        hdr + b'\x09' + b'\x02\x02\x02\x00',                                        # optlen larger
        hdr + b'\x01\x02', hdr + b'\x02\x02\x00', hdr + b'\x02\x01\x00', hdr + b'\x02\x03\x00',
        hdr + b'\x02\x02\x05', hdr + b'\x03\x02\x01\x41', hdr + b'\x04\x02\x02\x41\x04',
        hdr + b'\x05\x02\x03\x41\x01\x00', hdr + b'\x07\x02\x05\x41\x03\x00\x00\x01',
        hdr + b'\x09\x02\x07\x41\x05\x00\x00\x00\x01\x00',
        hdr + b'\x08\x02\x06\x41\x04\x00\x00\x00\x00',                             # AS4 = 0
        bytes([4, 0, 0]) + hdr[3:] + b'\x08\x02\x06\x41\x04\x00\x01\x00\x00',       # My AS 0 with AS4 present
        bytes([3]) + hdr[1:] + b'\x00', bytes([5]) + hdr[1:] + b'\x00', bytes([4, 0, 0]) + hdr[3:] + b'\x00',
        hdr[:5] + b'\x00\x00\x00\x00' + b'\x00',                                    # identifier 0
        hdr + b'\x07\x02\x05\x01\x03\x00\x01\x00', hdr + b'\x09\x02\x07\x01\x05\x00\x01\x00\x01\x00',
        hdr + b'\x08\x02\x06\x45\x04\x00\x03\x01\x03',                             # add-path unknown family
        hdr + b'\x08\x02\x06\x45\x04\x00\x01\x01\x00', hdr + b'\x08\x02\x06\x45\x04\x00\x01\x01\x04',
        hdr + b'\x07\x02\x05\x45\x03\x00\x01\x01', hdr + b'\x09\x02\x07\x45\x05\x00\x01\x01\x03\x00',
        hdr + b'\x04\x02\x02\x45\x00',
        hdr + b'\x0c\x02\x0a\x45\x08\x00\x01\x01\x03\x00\x09\x01\x01',           # second family unknown
        hdr + b'\x0a\x02\x08\x47\x06\x00\x01\x01\x00\x00\x00', hdr + b'\x0c\x02\x0a\x47\x08\x00\x01\x01\x00\x00\x00\x01\xff',
        hdr + b'\x10\x02\x0e\x47\x07\x00\x01\x01\x00\x00\x00\x01\x47\x03\x00\x02\x01',  # LLGR twice: overwritten
        hdr + b'\x09\x02\x07\x05\x05\x00\x01\x00\x01\x00', hdr + b'\x0b\x02\x09\x05\x07\x00\x01\x00\x01\x00\x02\x00',
        hdr + b'\x0e\x02\x0c\x05\x06\x00\x01\x00\x01\x00\x02\x05\x00\x05\x00',       # ext nexthop then two empty
        hdr + b'\x04\x01\x02\x00\x00', hdr + b'\x04\x00\x02\x00\x00', hdr + b'\x04\x03\x00\x02\x00',
        hdr + b'\x04\xff\x02\x02\x00', hdr + b'\x08\x02\x02\x02\x00\x01\x02\x02\x00',
        hdr + b'\x06\x02\x04\x02\x05\x46\x00', hdr + b'\x06\x02\x04\x02\x00\x46\x09',
        hdr + b'\x08\x02\x02\x02\x00\x02\x02\x46',                                  # parameter cut inside a capability
        hdr + b'\x0a\x02\x03\x02\x00\x46\x00\x02\x02\x80\x00',                      # capability header cut by the parameter
        hdr + b'\x0a\x02\x08\x03\x01\x00\x03\x01\x01\xc8\x00', hdr + b'\x08\x02\x06\x03\x00\x03\x02\x01\x02',
    ]
    out += [(b, 'hand') for b in hand]
    for _ in range(2000 if ctx.thorough else 150):       # random tails behind a valid fixed part
        n = rng.choice([1, 2, 3, 4, 6, 8, 12, 20])
        tail = bytes(rng.choice([0, 1, 2, 2, 2, 4, 5, 6, 64, 65, 69, 70, 71, 128, 131, rng.randrange(256)])
                     for _ in range(n))
        out.append((hdr + bytes([len(tail)]) + tail, 'random'))
    return out


# ------------------------------------------------------------------------------------------
# the check
# ------------------------------------------------------------------------------------------
def coq_run(ctx, cases):
    """cases: [(model expression, canonical implementation value, description)] -> mismatches"""
    if not ctx.coq_ok:
        return []
    shards = []
    for i in range(0, len(cases), PER_SHARD):
        body = ';\n'.join('(%s, %s)' % (c[0], coq_sx(c[1])) for c in cases[i:i + PER_SHARD])
        shards.append('Definition cases : list (sx * sx) := [\n%s\n].\nEval vm_compute in (mismatches cases).\n' % body)
    mism = []
    for k, (rc, out) in enumerate(common.coq_eval_shards(ctx.prop + '_open', shards, imports=IMPORTS)):
        idx = common.parse_nats(out)
        if rc != 0 or idx is None:
            mism.append({'what': 'OPEN case file %d does not evaluate: %s' % (k, common.first_error(out))})
            continue
        for i in idx:
            c = cases[k * PER_SHARD + i]
            mism.append({'what': 'model and implementation differ on %s' % (repr(c[2])[:300],),
                         'input': c[2], 'impl': c[1], 'model_expr': c[0][:2000]})
    return mism


def live_consts():
    from yabgp.message.open import Capability
    from yabgp.common import constants as C
    return [[getattr(Capability, n) for n in CODE_NAMES],
            [list(k) for k in C.AFI_SAFI_DICT], list(C.ADD_PATH_ACT_DICT)]


def run(ctx):
    rng = ctx.rng
    viol, cases, samples = [], [], []
    stats = {}

    def violation(what, inp):
        if len(viol) < 50:
            viol.append({'what': what, 'input': inp, 'known': None})

    # --- constants copied by the model
    cases.append(('sx_consts', live_consts(), ('constants',)))

    # --- construct: correspondence + round-trip oracle
    cons = gen_construct(ctx)
    bodies = []
    n_ok = n_noopt = 0
    for con in cons:
        (ver, asn, hold, bid, cfg), in_coq = con[:5], (con[5] if len(con) > 5 else True)
        d = cfg_dict(cfg, rng)
        r = impl_construct(ver, asn, hold, bid, d)
        desc = ('construct', ver, asn, hold, bid, repr(d))
        if in_coq:
            cases.append(('sx_res SB (open_construct %d %d %d %d %s)' % (ver, asn, hold, bid, coq_cfg(cfg)), r, desc))
        if r[0] != 0:
            continue
        m = bytes(r[1])
        n_ok += 1
        if not (m[:16] == b'\xff' * 16 and struct.unpack('!HB', m[16:19]) == (len(m), 1)):
            violation('constructed OPEN is not framed as a type-1 message', desc)
            continue
        body = m[19:]
        if in_coq:
            bodies.append(body)
        if ver != 4 or not (1 <= asn < 2 ** 32):
            continue
        # the property: decoding returns the same values (attributes and return value)
        want = [4, asn, hold, bid, expected_of_cfg(asn, cfg)]
        got = impl_parse(body)
        if body[9] == 0:
            n_noopt += 1
        if got != [0, [want, [want]]]:
            what = 'OPEN round trip: construct then parse does not give back the values'
            if got[0] == 0 and got[1][0] == want and got[1][1] == []:
                what = ('OPEN round trip: Open.parse returns None for an OPEN without optional parameters '
                        '(attributes are correct); apply build/proposed/c14_open_parse_return.diff')
            violation(what, {'construct': desc, 'body': body.hex(), 'parse': repr(got)[:600], 'want': repr(want)[:600]})
        # C05 facts on the wire
        my_as = struct.unpack('!H', body[1:3])[0]
        has65 = b'\x02\x06\x41\x04' + be(4, asn) in body[10:]
        if my_as != (asn if asn <= 65535 else 23456) or (asn > 65535 and not has65):
            violation('My AS field / capability 65 do not follow the AS_TRANS rule', desc)
    stats['construct_cases'] = len(cons)
    stats['construct_ok'] = n_ok
    stats['construct_without_optional_parameters'] = n_noopt
    samples.append(['construct', cons[5][1], cons[5][2], repr(cons[5][4])])

    # --- parse: implementation's own messages
    seen = set()
    for b in bodies:
        if b not in seen:
            seen.add(b)
            cases.append(('sx_res sx_open_parse (open_parse %s)' % coq_bytes(b), impl_parse(b), ('parse-own', b.hex())))
    stats['parse_own_distinct'] = len(seen)

    # --- parse: reference-encoded messages (correspondence + oracle)
    refs = gen_reference(ctx)
    ref_bodies = []
    n_ref = 0
    for (my_as, hold, bid, ps) in refs:
        body = ref_open_body(4, my_as, hold, bid, ps)
        if body in seen:
            continue
        seen.add(body)
        ref_bodies.append(body)
        n_ref += 1
        got = impl_parse(body)
        cases.append(('sx_res sx_open_parse (open_parse %s)' % coq_bytes(body), got, ('parse-reference', body.hex())))
        asn, dic = expected(my_as, [c for p in ps for c in p])
        want = [4, asn, hold, bid, dic]
        if got != [0, [want, [want]]]:
            what = 'reference-encoded OPEN does not decode to the expected values'
            if got[0] == 0 and got[1][0] == want and got[1][1] == []:
                what = ('Open.parse returns None for a reference OPEN without optional parameters '
                        '(attributes are correct); apply build/proposed/c14_open_parse_return.diff')
            violation(what, {'params': repr(ps)[:800], 'body': body.hex(), 'parse': repr(got)[:600],
                             'want': repr(want)[:600]})
    stats['parse_reference_cases'] = n_ref
    stats['reference_kinds'] = len(CAP_POOL)
    samples.append(['parse-reference', ref_bodies[len(ref_bodies) // 2].hex()])

    # --- parse: malformed stream (correspondence only; the property says nothing about these)
    mal = gen_malformed(ctx, sorted(seen, key=lambda b: (len(b), b))[::7] + ref_bodies[:5])
    n_mal = 0
    kinds = {}
    for b, tag in mal:
        if b in seen:
            continue
        seen.add(b)
        n_mal += 1
        got = impl_parse(b)
        key = '%s:%s' % (tag, {0: 'value', 1: 'bgp-error', 2: 'exception'}[got[0]])
        kinds[key] = kinds.get(key, 0) + 1
        cases.append(('sx_res sx_open_parse (open_parse %s)' % coq_bytes(b), got, ('parse-malformed', tag, b.hex())))
    stats['parse_malformed_cases'] = n_mal
    stats['parse_malformed_outcomes'] = kinds
    samples.append(['parse-malformed', mal[len(mal) // 3][0].hex()])

    mism = coq_run(ctx, cases)
    stats['open_correspondence_cases'] = len(cases)
    return {'evaluations': len(cases), 'distinct': len(seen) + n_ok,
            'rule': 'OPEN: every subset of the capability-dictionary keys x AS/hold/id boundaries for construct; '
                    'own, reference-encoded (subsets, orders, packagings) and malformed bodies for parse',
            'samples': samples, 'mismatches': mism, 'violations': viol, 'extra': {'open': stats}}
