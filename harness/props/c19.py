"""C19 -- Adj-RIB-In / Adj-RIB-Out and the version counters (yabgp/core/protocol.py).

Implementation side: a REAL BGPPeering/FSM/BGP on the simulated reactor (session.Driver, rib=True,
afi_safi ipv4+flowspec+vpnv4) is brought to Established; UPDATE byte strings built with yabgp's own
Update.construct go in through dataReceived; the send side is driven through
update_rib_out_ipv4/update_send_version and through the Flask test client of yabgp.api.app;
sessions end in BOTH ways -- the peer drops the connection (connectionLost with disconnected False), or
yabgp closes it itself (header error -> NOTIFICATION -> closeConnection, hold timer expiry, manual stop,
NOTIFICATION from the peer; then connectionLost with disconnected True) -- and are re-established (new
BGP object).  UPDATEs carry every combination of {IPv4 NLRI, IPv4 withdrawals, MP_REACH_NLRI (14),
MP_UNREACH_NLRI (15)}, 14 and 15 of the same or of different families, on both directions.
Received prefixes are encoded by the harness itself (RFC 4271 4.3), for non-octet lengths with arbitrary
padding bits: the dictionary oracle identifies a prefix up to its padding.  The session configuration is a
generator dimension: eBGP and iBGP (local AS == remote AS: the REST view adds a default LOCAL_PREF), sends
directly and through the REST view, identical re-announcements with and without LOCAL_PREF.

After EVERY event the observable state (adj_rib_in['ipv4'], adj_rib_out['ipv4'], receive_version,
send_version, the six flowspec/sr/mpls_vpn dictionaries, in dictionary order, the disconnected flag) is compared
  (1) with the Coq model coq/model/YRib.v, evaluated by vm_compute (correspondence), and
  (2) with a plain-Python dictionary oracle written from the property text (no model involved).
"""
import base64
import itertools
import json

import env  # noqa: F401
import common
import session
import explore
from session import Driver, coq_sx
from yabgp.api.app import app as FLASK_APP   # noqa: E402  (registers CLI options: before CONF() is parsed)

COQ_TARGETS = ['props/C19.vo']
IMPORTS = 'From YV Require Import lib.Base model.YRib.\n'
TRUSTED = [
    "yabgp's Update.construct_attributes / Update.parse are used to build the path-attribute octets and to read "
    "back the attribute values and MP rules a message carries (the codecs are C06/C07); the IPv4 prefix fields "
    "are encoded by the harness itself (enc_prefix, RFC 4271 4.3, padding bits chosen by the generator) and the "
    "oracle's routes are the intended prefixes, not what the decoder returned",
    "the REST view's attribute rewriting is reproduced by the harness to form the model's input and the oracle's "
    "expected Adj-RIB-Out value (effective_attr: default LOCAL_PREF 100 on an iBGP session when attributes are "
    "present and carry none); that the view stores and compares exactly that is checked on every REST send",
    'interning of Python values into numbers (harness/props/c19.py canon/Intern): two attribute dictionaries get '
    'the same number iff their canonical renderings are equal; Python == on the attribute dictionaries is assumed '
    'to coincide with that (no NaN, no tuple-vs-list mixtures inside one run)',
    'the key string \'{"k":"v",...}\' is compared through an independently built table string -> NLRI dictionary',
]
ASSUMPTIONS = [
    'coq/model/YRib.v is hand-written and tied to yabgp/core/protocol.py by the correspondence run of this check '
    '(every event of every trace, whole state, dictionary order included)',
    'prefix lists are lists of strings (JSON bodies with other element types make the try/except of '
    'update_rib_out_ipv4 return False midway; not modelled)',
    'sr_policy NLRI is a single dictionary (any other shape raises in update_send_version; not modelled)',
    'the rendering of a sorted NLRI dictionary as key string is injective (no double quote inside keys/values); '
    'that the sorted association list identifies the dictionary is proved (C19_key_injective)',
    'the model is of the code with build/proposed/c19-receive-version-family-match.diff applied',
    'session end: closeConnection is modelled on a connected transport (it is only reached from a live session: '
    'header error, hold timer, manual stop, NOTIFICATION received - all four are driven on the real FSM), and '
    'nothing is delivered to the object between its closeConnection and its connectionLost (the transport stops '
    'reading after loseConnection); connectionLost is modelled with its test of `disconnected` (both branches '
    'are compared with the implementation and covered by C19_empty_after_drop / C19_empty_after_any_drop)',
]
KNOWN_VPN = 'C19-vpnv4-withdraw-label'

AFI_SAFI = ('ipv4', 'flowspec', 'vpnv4')
PEER = '10.0.0.2'

# ------------------------------------------------------------------------------------------
# pools
# ------------------------------------------------------------------------------------------
PREFIXES = ['10.1.0.0/16', '10.2.0.0/16', '10.3.3.0/24', '192.168.0.0/24']
ATTRS = [
    {1: 0, 2: [(2, [65002])], 3: '10.0.0.2'},
    {1: 0, 2: [(2, [65002])], 3: '10.0.0.2', 4: 10},
    {1: 2, 2: [(2, [65002, 65010])], 3: '10.0.0.9'},
]
FS_RULES = [
    {1: '192.88.2.0/24', 2: '192.89.1.0/24'},
    {1: '10.0.0.0/8'},
    {2: '172.16.0.0/16', 1: '10.9.0.0/16'},          # dictionary order differs from sorted order
]
FS_ATTRS = [
    {1: 0, 2: [], 5: 100, 16: [[32776, '65001:100']]},
    {1: 0, 2: [], 5: 100, 16: [[32776, '65001:200']]},
    {1: 0, 2: [], 5: 300},
]
VPN_ROUTES = [
    {'label': [29], 'rd': '2:2', 'prefix': '192.168.201.0/24'},
    {'rd': '2:2', 'prefix': '192.168.202.0/24', 'label': [30]},
    {'label': [31], 'rd': '3:3', 'prefix': '192.168.201.0/24'},
    # label 0x80000 = the value a VPNv4 withdrawal parses to: the only received route whose withdrawal has
    # the same key string, i.e. the only one the received MP_UNREACH_NLRI branch can actually remove
    {'label': [524288], 'rd': '4:4', 'prefix': '192.168.204.0/24'},
]
VPN_ATTRS = [
    {1: 2, 2: [], 5: 100, 16: [[2, '2:2']]},
    {1: 2, 2: [], 5: 100, 16: [[2, '3:3']]},
    {1: 2, 2: [], 5: 200, 16: [[2, '2:2']]},
]
VPN_NH = {'rd': '0:0', 'str': '192.168.1.6'}
SR_RULES = [
    {'distinguisher': 1, 'color': 10, 'endpoint': '10.0.0.9'},
    {'distinguisher': 2, 'color': 10, 'endpoint': '10.0.0.9'},
]
# JSON-side (REST) attribute sets: lists instead of tuples, no attribute 16 (the view rewrites it)
S_ATTRS = [
    {1: 0, 2: [[2, [65001]]], 3: '10.0.0.1'},
    {1: 0, 2: [[2, [65001]]], 3: '10.0.0.1', 4: 10},
    {1: 0, 2: [[2, [65001, 65020]]], 3: '10.0.0.1'},
]
S_ATTRS.append({**S_ATTRS[0], 5: 100})         # [3]: [0] with the value the iBGP default has
S_ATTRS.append({**S_ATTRS[0], 5: 200})         # [4]: [0] with another LOCAL_PREF
S_FS_ATTRS = [{1: 0, 2: [], 5: 100}, {1: 0, 2: [], 5: 200}, {1: 0, 2: [], 5: 100, 4: 7}]


# ------------------------------------------------------------------------------------------
# IPv4 prefixes as sent (RFC 4271 4.3: length octet, ceil(len/8) octets, trailing bits irrelevant).
# A received prefix is 'a.b.c.d/len' (zero padding) or ['a.b.c.d/len', pad]: pad is OR-ed into the unused low
# bits of the last octet.  The route is 'a.b.c.d/len' whatever the padding.
# ------------------------------------------------------------------------------------------
def pcanon(x):
    return x if isinstance(x, str) else x[0]


def ppad(x):
    return 0 if isinstance(x, str) else int(x[1])


def enc_prefix(x):
    addr, ln = pcanon(x).split('/')
    ln = int(ln)
    octs = bytearray(int(o) for o in addr.split('.'))
    assert len(octs) == 4 and 0 <= ln <= 32
    v = int.from_bytes(octs, 'big')
    assert ln == 32 or v & ((1 << (32 - ln)) - 1) == 0, 'generator: host bits set in %r' % (x,)
    field = bytearray(octs[:(ln + 7) // 8])
    if ln % 8:
        field[-1] |= ppad(x) & (0xff >> (ln % 8))
    return bytes([ln]) + bytes(field)


def wire_value(x):
    """(the field left-justified in 32 bits, length): the model's wprefix"""
    e = enc_prefix(x)
    return int.from_bytes(e[1:].ljust(4, b'\0'), 'big'), e[0]


def prefix_number(s):
    """'a.b.c.d/len' -> (a.b.c.d) * 64 + len, YRib.pfx; None for any other string"""
    try:
        addr, ln = s.split('/')
        octs = [int(o) for o in addr.split('.')]
        ln = int(ln)
        if len(octs) == 4 and all(0 <= o <= 255 for o in octs) and 0 <= ln <= 63 and \
                s == '%d.%d.%d.%d/%d' % (tuple(octs) + (ln,)):
            return int.from_bytes(bytes(octs), 'big') * 64 + ln
    except (ValueError, AttributeError):
        pass
    return None


def keystr(rule):
    """the dictionary key the code documents: {"k":"v",...} over the sorted NLRI dictionary"""
    return '{' + ','.join('"%s":"%s"' % (k, rule[k]) for k in sorted(rule.keys())) + '}'


def jsonable_rule(rule):
    return {str(k): v for k, v in rule.items()}


# ------------------------------------------------------------------------------------------
# canonical numbers for Python values
# ------------------------------------------------------------------------------------------
def canon(v):
    if isinstance(v, dict):
        return '{%s}' % ','.join('%s:%s' % (canon(k), canon(v[k])) for k in sorted(v.keys(), key=repr))
    if isinstance(v, (list, tuple)):
        return '[%s]' % ','.join(canon(x) for x in v)
    if isinstance(v, (bytes, bytearray)):
        return 'b' + bytes(v).hex()
    if isinstance(v, bool):
        return 'B%d' % v
    return repr(v)


class Intern(object):
    def __init__(self):
        self.t = {}

    def __call__(self, kind, v):
        k = (kind, v)
        if k not in self.t:
            self.t[k] = len(self.t) + 1
        return self.t[k]


STR_KEYS = sorted({str(k) for r in FS_RULES for k in r} | {k for r in VPN_ROUTES for k in r}
                  | {k for r in SR_RULES for k in r} | {'path_id'})


def kcode(k):
    """order-isomorphic to Python's ordering of the keys of one NLRI dictionary"""
    if isinstance(k, int):
        return k
    return 1000 + STR_KEYS.index(k)


class Render(object):
    """Python state / messages -> the nesting of YRib.sx_rib, with numbers from one Intern table"""

    def __init__(self):
        self.I = Intern()       # one table per check run: equal values get equal numbers in every trace
        # key string -> NLRI dictionary (built independently of the code), per direction: received rules
        # have the parser's key types (flowspec: integers), sent ones come from JSON (strings)
        self.keys = {'recv': {}, 'send': {}}

    def learn(self, side, rule):
        self.keys[side][keystr(rule)] = rule

    def prefix(self, p):
        n = prefix_number(p)
        return n if n is not None else (1 << 40) + self.I('p', p)

    def rule(self, r):
        return [[kcode(k), self.I('v', canon(str(v)))] for k, v in r.items()]

    def rkey(self, side, s):
        r = self.keys[side].get(s)
        if r is None:
            return [[999999, self.I('unknown-key', s)]]
        return [[kcode(k), self.I('v', canon(str(r[k])))] for k in sorted(r.keys())]

    def mp(self, m, field):
        rules = m.get(field, [])
        if isinstance(rules, dict):
            rules = [rules]
        afi, safi = m['afi_safi']
        rest = {k: v for k, v in m.items() if k not in ('afi_safi', 'nlri', 'withdraw')}
        return [afi, safi, self.I('m', canon(rest)), [self.rule(r) for r in rules]]

    def attrs(self, a):
        rest = {k: v for k, v in a.items() if k not in (14, 15)}
        return [self.I('a', canon(rest)),
                [self.mp(a[14], 'nlri')] if 14 in a else [],
                [self.mp(a[15], 'withdraw')] if 15 in a else []]

    def state(self, p):
        def ptable(d):
            return [[self.prefix(k), self.attrs(v)] for k, v in d.items()]

        def rtable(side, d):
            return [[self.rkey(side, k), self.attrs(v)] for k, v in d.items()]

        def vers(v):
            return [v['ipv4'], v['flowspec'], v['sr_policy'], v['mpls_vpn']]
        return [ptable(p.adj_rib_in['ipv4']), ptable(p.adj_rib_out['ipv4']),
                vers(p.receive_version), vers(p.send_version),
                rtable('send', p.flowspec_send_dict), rtable('recv', p.flowspec_receive_dict),
                rtable('send', p.sr_send_dict), rtable('recv', p.sr_receive_dict),
                rtable('send', p.mpls_vpn_send_dict), rtable('recv', p.mpls_vpn_receive_dict),
                int(bool(p.disconnected))]

    # Coq terms of the model's inputs
    def coq_mp(self, m):
        afi, safi, rest, rules = m
        return '(mkMp %d %d %d [%s])' % (afi, safi, rest, '; '.join(
            '[%s]' % '; '.join('(%d, %d)' % (k, v) for k, v in r) for r in rules))

    def coq_attrs(self, a):
        x = self.attrs(a)
        return '(mkAttrs %d %s %s)' % (x[0], 'None' if not x[1] else '(Some %s)' % self.coq_mp(x[1][0]),
                                       'None' if not x[2] else '(Some %s)' % self.coq_mp(x[2][0]))

    def coq_wupdate(self, attr, nlri, withdraw):
        """received UPDATE: decoded attributes, prefixes as sent"""
        return '(mkWUpdate %s [%s] [%s])' % (self.coq_attrs(attr),
                                             '; '.join('(%d, %d)' % wire_value(x) for x in nlri),
                                             '; '.join('(%d, %d)' % wire_value(x) for x in withdraw))

    def coq_update(self, msg):
        return '(mkUpdate %s [%s] [%s])' % (self.coq_attrs(msg['attr']),
                                            '; '.join('%d' % self.prefix(p) for p in msg['nlri']),
                                            '; '.join('%d' % self.prefix(p) for p in msg['withdraw']))


# ------------------------------------------------------------------------------------------
# events
#   ('recv', logical message dict)   -> Update.construct -> dataReceived
#   ('send', message dict)           -> update_rib_out_ipv4 + update_send_version, or the REST view
#   ('drop',)                        -> the PEER drops the connection: connectionLost, look at the old object,
#                                       then re-establish
#   ('close', kind)                  -> YABGP closes the session (closeConnection sets `disconnected`), look at
#                                       the object, then connectionLost, look again, then re-establish.
#                                       kind: 'hdr' (bad marker -> NOTIFICATION -> close), 'hold' (hold timer
#                                       expires), 'stop' (manual stop), 'notif' (NOTIFICATION from the peer)
# ------------------------------------------------------------------------------------------
def m_ann(ps, a):
    return {'attr': dict(ATTRS[a]), 'nlri': [PREFIXES[p] for p in ps], 'withdraw': []}


def m_wd(ps):
    return {'attr': {}, 'nlri': [], 'withdraw': [PREFIXES[p] for p in ps]}


def m_wd_ann(ws, ps, a):
    return {'attr': dict(ATTRS[a]), 'nlri': [PREFIXES[p] for p in ps], 'withdraw': [PREFIXES[p] for p in ws]}


def m_fs_ann(fs, a):
    at = dict(FS_ATTRS[a])
    at[14] = {'afi_safi': (1, 133), 'nexthop': '', 'nlri': [dict(FS_RULES[f]) for f in fs]}
    return {'attr': at, 'nlri': [], 'withdraw': []}


def m_fs_wd(fs):
    return {'attr': {15: {'afi_safi': (1, 133), 'withdraw': [dict(FS_RULES[f]) for f in fs]}},
            'nlri': [], 'withdraw': []}


def m_vpn_ann(vs, a):
    at = dict(VPN_ATTRS[a])
    at[14] = {'afi_safi': (1, 128), 'nexthop': dict(VPN_NH), 'nlri': [dict(VPN_ROUTES[v]) for v in vs]}
    return {'attr': at, 'nlri': [], 'withdraw': []}


def m_vpn_wd(vs):
    return {'attr': {15: {'afi_safi': (1, 128), 'withdraw': [dict(VPN_ROUTES[v]) for v in vs]}},
            'nlri': [], 'withdraw': []}


def s_ann(ps, a):
    return {'attr': dict(S_ATTRS[a]), 'nlri': [PREFIXES[p] for p in ps], 'withdraw': []}


def s_wd(ps):
    return {'attr': {}, 'nlri': [], 'withdraw': [PREFIXES[p] for p in ps]}


def s_wd_ann(ws, ps, a):
    return {'attr': dict(S_ATTRS[a]), 'nlri': [PREFIXES[p] for p in ps], 'withdraw': [PREFIXES[p] for p in ws]}


def s_mp_ann(safi, rules, a, nh=''):
    at = dict(S_FS_ATTRS[a])
    nl = [jsonable_rule(r) for r in rules]
    at[14] = {'afi_safi': [1, safi], 'nexthop': nh, 'nlri': nl[0] if safi == 73 else nl}
    return {'attr': at, 'nlri': [], 'withdraw': []}


def s_mp_wd(safi, rules):
    nl = [jsonable_rule(r) for r in rules]
    return {'attr': {15: {'afi_safi': [1, safi], 'withdraw': nl[0] if safi == 73 else nl}},
            'nlri': [], 'withdraw': []}


CLOSE_KINDS = ('hdr', 'hold', 'stop', 'notif')
DROPS = [('drop',)] + [('close', k) for k in CLOSE_KINDS]


def m_combo(nl, wd, f14, f15, a=0):
    """received UPDATE with any subset of {IPv4 NLRI, IPv4 withdrawals, MP_REACH_NLRI, MP_UNREACH_NLRI}.
    nl/wd: prefix indices; f14/f15: None or (safi, [pool indices])"""
    at = {}
    if f14:
        at = dict((FS_ATTRS if f14[0] == 133 else VPN_ATTRS)[a])
        pool = FS_RULES if f14[0] == 133 else VPN_ROUTES
        at[14] = {'afi_safi': (1, f14[0]), 'nexthop': '' if f14[0] == 133 else dict(VPN_NH),
                  'nlri': [dict(pool[i]) for i in f14[1]]}
        if nl:
            at[3] = '10.0.0.2'
    elif nl:
        at = dict(ATTRS[a])
    if f15:
        pool = FS_RULES if f15[0] == 133 else VPN_ROUTES
        at[15] = {'afi_safi': (1, f15[0]), 'withdraw': [dict(pool[i]) for i in f15[1]]}
    return {'attr': at, 'nlri': [PREFIXES[i] for i in nl], 'withdraw': [PREFIXES[i] for i in wd]}


S_POOL = {133: FS_RULES, 128: VPN_ROUTES, 73: SR_RULES}
S_NH = {133: '', 128: VPN_NH, 73: '10.0.0.1'}


def s_combo(nl, wd, f14, f15, a=0):
    """the same for the send side (JSON shapes: lists, string keys; sr_policy: ONE dictionary)"""
    at = {}
    if f14:
        at = dict(S_FS_ATTRS[a])
        rules = [jsonable_rule(S_POOL[f14[0]][i]) for i in f14[1]]
        at[14] = {'afi_safi': [1, f14[0]], 'nexthop': S_NH[f14[0]], 'nlri': rules[0] if f14[0] == 73 else rules}
        if nl:
            at[3] = '10.0.0.1'
    elif nl:
        at = dict(S_ATTRS[a])
    if f15:
        rules = [jsonable_rule(S_POOL[f15[0]][i]) for i in f15[1]]
        at[15] = {'afi_safi': [1, f15[0]], 'withdraw': rules[0] if f15[0] == 73 else rules}
    return {'attr': at, 'nlri': [PREFIXES[i] for i in nl], 'withdraw': [PREFIXES[i] for i in wd]}


# "A" = the route the set-up announces, "B" = another one.  Received VPNv4: A is the route with the wire
# withdrawal's label (its withdrawal really removes it), so that the 15 branch is observable there too.
R14 = [None, (133, [1]), (133, [0]), (128, [1])]                  # none, flowspec B, flowspec A, VPNv4 B
R15 = [None, (133, [0]), (128, [3])]                              # none, flowspec A, VPNv4 A
S14 = [None, (133, [1]), (133, [0]), (128, [1]), (73, [0])]       # ... and sr_policy A
S15 = [None, (133, [0]), (128, [0]), (73, [0])]


def combo_letters(side):
    """all 16 subsets of {nlri, withdraw, 14, 15} x the family choices of 14 and 15 (same family: replace rule A
    by rule B, or announce and withdraw A, in ONE message; different families: one table each)"""
    mk, l14, l15 = (m_combo, R14, R15) if side == 'recv' else (s_combo, S14, S15)
    out = []
    for nl in ([], [0]):
        for wd in ([], [1]):
            for f14 in l14:
                for f15 in l15:
                    out.append((side, mk(nl, wd, f14, f15)))
    return out


def combo_setup(side):
    """every table the combinations touch is non-empty: flowspec A, VPNv4 A (sent: sr_policy A too), prefix 1"""
    if side == 'recv':
        return [('recv', m_combo([], [], (133, [0]), None)), ('recv', m_combo([], [], (128, [3]), None)),
                ('recv', m_combo([1], [], None, None, 1))]
    return [('send', s_combo([], [], (133, [0]), None)), ('send', s_combo([], [], (128, [0]), None)),
            ('send', s_combo([], [], (73, [0]), None)), ('send', s_combo([1], [], None, None, 1))]


def combo_followups(side):
    """what shows afterwards whether the combined message was fully accounted: withdrawing A again must be a
    no-op exactly when the message withdrew it"""
    if side == 'recv':
        return [('recv', m_combo([], [], None, (133, [0]))), ('recv', m_combo([], [], None, (128, [3]))),
                ('recv', m_combo([], [0, 1], None, None))]
    return [('send', s_combo([], [], None, (133, [0]))), ('send', s_combo([], [], None, (128, [0]))),
            ('send', s_combo([], [], None, (73, [0]))), ('send', s_combo([], [0, 1], None, None))]


# -- the same prefix with different padding bits in announce / re-announce / withdraw positions
PP, PQ, PH = '10.1.1.4/30', '10.3.2.0/23', '128.0.0.0/1'


def m_pad(nl, wd, a=0):
    return {'attr': dict(ATTRS[a]) if nl else {}, 'nlri': [list(x) for x in nl], 'withdraw': [list(x) for x in wd]}


def pad_alphabet():
    return [('recv', m_pad([(PP, 0)], [])), ('recv', m_pad([(PP, 1)], [])), ('recv', m_pad([(PP, 3)], [])),
            ('recv', m_pad([(PP, 2)], [], 1)),                          # other attributes: a real change
            ('recv', m_pad([], [(PP, 0)])), ('recv', m_pad([], [(PP, 2)])),
            ('recv', m_pad([(PP, 1), (PP, 2)], [])),                    # twice in one message
            ('recv', m_pad([(PP, 1)], [(PP, 3)])),                      # withdrawn and announced in one message
            ('recv', m_pad([(PQ, 1)], [])), ('recv', m_pad([], [(PQ, 0)])),
            ('recv', m_pad([(PH, 0x55)], [])), ('recv', m_pad([], [(PH, 0x2a)])),
            ('recv', m_pad([('10.1.1.8/30', 3)], [])),                  # the neighbour: NOT the same route
            ('drop',)]


# -- identical re-announcements with and without LOCAL_PREF (the REST view of an iBGP session adds a default)
def reann_alphabet():
    nolp = {'attr': {1: 0, 2: [], 14: {'afi_safi': [1, 133], 'nexthop': '', 'nlri': [jsonable_rule(FS_RULES[0])]}},
            'nlri': [], 'withdraw': []}
    return [('send', s_ann([0], 0)), ('send', s_ann([0], 3)), ('send', s_ann([0], 4)), ('send', s_ann([0], 1)),
            ('send', s_ann([0, 1, 0], 2)),
            ('send', s_wd([0])), ('send', s_wd_ann([0], [0], 0)), ('send', nolp), ('drop',)]


def short_traces(al, kind, n_ann, deep):
    """all traces up to length 2; length 3: the first two from the first n_ann letters (all when deep)"""
    out = [(kind, [x]) for x in al] + [(kind, [x, y]) for x in al for y in al]
    head = al if deep else al[:n_ann]
    out += [(kind, [x, y, z]) for x in head for y in head for z in (al if deep else head)]
    return out


def recv_alphabet(big):
    al = [('recv', m_ann([0], 0)), ('recv', m_ann([0], 1)), ('recv', m_ann([1], 0)),
          ('recv', m_wd([0])), ('recv', m_wd([1])),
          ('recv', m_wd_ann([0], [0], 0)),                 # withdraw and announce the same prefix
          ('recv', m_ann([0, 1, 0], 2)),                   # duplicate prefix inside one message
          ('recv', m_fs_ann([0], 0)), ('recv', m_fs_ann([0], 1)), ('recv', m_fs_wd([0])),
          ('recv', m_vpn_ann([0], 0)), ('recv', m_vpn_wd([0])),
          ('drop',)]
    if big:
        al += [('recv', m_ann([2, 3], 1)), ('recv', m_wd([0, 0, 2])), ('recv', m_wd_ann([1], [0, 2], 1)),
               ('recv', m_fs_ann([1, 2, 1], 0)), ('recv', m_fs_ann([2], 2)), ('recv', m_fs_wd([2, 1, 2])),
               ('recv', m_vpn_ann([1, 2], 1)), ('recv', m_vpn_ann([0], 2)), ('recv', m_vpn_wd([1, 2])),
               ('recv', m_ann([3], 0)), ('recv', m_wd([3])),
               ('recv', m_vpn_ann([3], 0)), ('recv', m_vpn_wd([3])),
               ('recv', m_combo([], [], (133, [1]), (133, [0]))),          # replace flowspec 0 by 1
               ('recv', m_combo([2], [0], (133, [0, 2]), (133, [1, 0]), 1)),
               ('recv', m_combo([], [], (128, [1]), (128, [3]))),
               ('recv', m_combo([0], [], (128, [3]), (133, [0]), 2)),
               ('recv', m_combo([], [1], (133, [1]), (128, [3, 0]), 2)),
               ('recv', m_pad([(PP, 1)], [])), ('recv', m_pad([(PP, 2)], [])), ('recv', m_pad([], [(PP, 3)]))]
        al += [('close', k) for k in CLOSE_KINDS]
    return al


def send_alphabet(big):
    al = [('send', s_ann([0], 0)), ('send', s_ann([0], 1)), ('send', s_ann([1], 0)),
          ('send', s_wd([0])), ('send', s_wd([1])), ('send', s_wd_ann([0], [0], 0)),
          ('send', s_ann([0, 1, 0], 2)),
          ('send', s_mp_ann(133, [FS_RULES[0]], 0)), ('send', s_mp_ann(133, [FS_RULES[0]], 1)),
          ('send', s_mp_wd(133, [FS_RULES[0]])),
          ('send', s_mp_ann(128, [VPN_ROUTES[0]], 0, VPN_NH)), ('send', s_mp_wd(128, [VPN_ROUTES[0]])),
          ('drop',)]
    if big:
        al += [('send', s_ann([2, 3], 1)), ('send', s_wd([0, 0, 2])), ('send', s_wd_ann([1], [0, 2], 1)),
               ('send', s_mp_ann(133, [FS_RULES[1], FS_RULES[2], FS_RULES[1]], 0)),
               ('send', s_mp_wd(133, [FS_RULES[2], FS_RULES[1]])),
               ('send', s_mp_ann(128, [VPN_ROUTES[1], VPN_ROUTES[2]], 1, VPN_NH)),
               ('send', s_mp_wd(128, [VPN_ROUTES[1]])),
               ('send', s_mp_ann(73, [SR_RULES[0]], 0, '10.0.0.1')), ('send', s_mp_ann(73, [SR_RULES[0]], 1, '10.0.0.1')),
               ('send', s_mp_ann(73, [SR_RULES[1]], 0, '10.0.0.1')), ('send', s_mp_wd(73, [SR_RULES[0]])),
               ('send', s_combo([], [], (133, [1]), (133, [0]))),
               ('send', s_combo([2], [0], (133, [0, 2]), (133, [1, 0]), 1)),
               ('send', s_combo([], [], (128, [1]), (128, [0]))),
               ('send', s_combo([0], [], (128, [0]), (133, [0]), 2)),
               ('send', s_combo([], [1], (73, [1]), (73, [0]), 2)),
               ('send', s_combo([], [], (133, [1]), (73, [0]), 1)),
               ('send', s_ann([0], 3)), ('send', s_ann([0], 4))]
        al += [('close', k) for k in CLOSE_KINDS]
    return al


# ------------------------------------------------------------------------------------------
# the property oracle (plain dictionaries, from the property text)
# ------------------------------------------------------------------------------------------
FAMS = {(1, 133): 'flowspec', (1, 73): 'sr_policy', (1, 128): 'mpls_vpn'}


def route_identity(fam, rule):
    if fam == 'mpls_vpn':                      # RFC 4364: the label is not part of the route identity
        return canon({str(k): str(v) for k, v in rule.items() if k not in ('label',)})
    return canon({str(k): str(v) for k, v in rule.items()})


class Oracle(object):
    """one connection, one direction"""

    def __init__(self):
        self.rib = {}
        self.ver = {'ipv4': 0, 'flowspec': 0, 'sr_policy': 0, 'mpls_vpn': 0}

    def ipv4(self, msg):
        """apply withdrawals then announcements; count new / changed / removed"""
        for p in msg['withdraw']:
            if p in self.rib:
                del self.rib[p]
                self.ver['ipv4'] += 1
        for p in msg['nlri']:
            if p not in self.rib or self.rib[p] != msg['attr']:
                self.ver['ipv4'] += 1
            self.rib[p] = msg['attr']


def mp_expect(before, fam, attr, has_table=True):
    """before: {route identity: canonical value} of one family.  Returns (after, number of changes)
    for the MP_REACH_NLRI routes followed by the MP_UNREACH_NLRI routes of the message."""
    after = dict(before)
    n = 0
    if not has_table:
        return after, 0
    if 14 in attr and FAMS.get(tuple(attr[14]['afi_safi'])) == fam:
        value = dict(attr)
        if fam != 'sr_policy':
            value[14] = {k: v for k, v in attr[14].items() if k != 'nlri'}
        value = canon(value)
        rules = attr[14]['nlri']
        for r in ([rules] if isinstance(rules, dict) else rules):
            rid = route_identity(fam, r)
            if after.get(rid) != value:
                n += 1
            after[rid] = value
    if 15 in attr and FAMS.get(tuple(attr[15]['afi_safi'])) == fam:
        rules = attr[15]['withdraw']
        for r in ([rules] if isinstance(rules, dict) else rules):
            rid = route_identity(fam, r)
            if rid in after:
                del after[rid]
                n += 1
    return after, n


# ------------------------------------------------------------------------------------------
# running one trace on the implementation
# ------------------------------------------------------------------------------------------
LOCAL_AS = 65001


def effective_attr(attr, ibgp):
    """what the REST view hands to the protocol (and what the Adj-RIB-Out must hold): on an iBGP session an
    update with attributes but without LOCAL_PREF gets the default 100.  Always a fresh copy."""
    a = {int(k): v for k, v in json.loads(json.dumps({str(k): v for k, v in attr.items()})).items()}
    if ibgp and a and 5 not in a:
        a[5] = 100
    return a


class Runner(object):
    def __init__(self, ibgp=False):
        self.ibgp = ibgp
        self.render = Render()
        for r in FS_RULES + VPN_ROUTES + SR_RULES:
            self.render.learn('recv', r)
            self.render.learn('send', jsonable_rule(r))
        for r in VPN_ROUTES:                  # what a withdrawal looks like after parsing
            self.render.learn('recv', dict(r, label=[524288]))
        remote_as = LOCAL_AS if ibgp else 65002
        self.msgs = dict(explore.messages(remote_as))
        self.d = Driver(rib=True, afi_safi=AFI_SAFI, local_as=LOCAL_AS, remote_as=remote_as)
        self.d.apply(('boot',))
        self.establish()
        self.client = FLASK_APP.test_client()
        self.hdr = {'Authorization': 'Basic ' + base64.b64encode(b'admin:admin').decode(),
                    'Content-Type': 'application/json'}

    @property
    def proto(self):
        return self.d.peering.fsm.protocol

    def do(self, e):
        """Driver.apply without the abstract-state extraction (which walks every connector ever made)"""
        Driver.current = self.d
        assert self.d.enabled(e), e
        try:
            self.d._do(e)
        except Exception:
            self.d.exc += 1

    def establish(self):
        d = self.d
        cid = len(d.sim.connectors) - 1
        self.do(('connok', cid))
        self.do(('data', cid, self.msgs['open_ok']))
        self.do(('data', cid, self.msgs['keepalive']))
        assert d.peering.fsm.state == 6, d.peering.fsm.state
        self.cid = cid

    def reconnect(self):
        d = self.d
        for _ in range(20):
            if d.sim.connectors[-1].state == 'connecting':
                break
            for n, _a in session.TIMER_ATTR:
                if d.enabled(('fire', n)):
                    self.do(('fire', n))
                    break
            else:
                self.do(('start',))            # after a manual stop nothing restarts by itself
        self.establish()

    def local_close(self, kind):
        """make yabgp close the Established session itself (FSM -> BGP.closeConnection); the transport has NOT
        reported the loss yet"""
        d = self.d
        p = self.proto
        if kind == 'hdr':
            self.do(('data', self.cid, self.msgs['bad_marker']))
        elif kind == 'notif':
            self.do(('data', self.cid, self.msgs['notif_cease']))
        elif kind == 'stop':
            self.do(('stop',))
        elif kind == 'hold':
            for _ in range(12):
                if d.enabled(('fire', 'THold')):
                    self.do(('fire', 'THold'))
                    break
                for n, _a in session.TIMER_ATTR:
                    if n != 'THold' and d.enabled(('fire', n)):
                        self.do(('fire', n))
                        break
        else:
            raise ValueError(kind)
        c = d.sim.connectors[self.cid]
        if not (c.state == 'connected' and c.transport.disconnecting and self.proto is p):
            raise AssertionError('generator: %r did not make yabgp close the connection' % (kind,))

    def fresh(self):
        """every trace starts on a new connection"""
        self.do(('lost', self.cid))
        self.reconnect()

    def wire(self, msg):
        """UPDATE octets: attributes from yabgp's own encoder, the two prefix fields from enc_prefix (padding bits
        as the event says), spliced (RFC 4271 4.3)."""
        import struct
        from yabgp.message.update import Update
        wd = b''.join(enc_prefix(x) for x in msg['withdraw'])
        at = Update.construct_attributes(msg['attr'], True) if msg['attr'] else b''
        nl = b''.join(enc_prefix(x) for x in msg['nlri'])
        body = struct.pack('!H', len(wd)) + wd + struct.pack('!H', len(at)) + at + nl
        return Update.construct_header(body)

    def run(self, events, mode='direct'):
        """mode 'direct': sends through the two protocol methods; 'flask': through the REST view.
        returns (coq event terms, [state after each event], oracle violations)"""
        from yabgp.message.update import Update
        self.fresh()
        R = self.render
        coq, states, viol = [], [], []
        o_in, o_out = Oracle(), Oracle()

        def bad(what, i):
            viol.append({'what': what, 'step': i, 'known': None})

        for i, e in enumerate(events):
            p = self.proto
            if e[0] == 'recv':
                data = self.wire(e[1])
                parsed = Update().parse(None, data[19:], True, {})
                # the routes are the INTENDED ones (prefix up to padding); only the attribute values are read
                # back from the decoder
                msg = {'attr': parsed['attr'], 'nlri': [pcanon(x) for x in e[1]['nlri']],
                       'withdraw': [pcanon(x) for x in e[1]['withdraw']]}
                if parsed['sub_error']:
                    bad('a well-formed UPDATE was rejected (sub_error %r)' % (parsed['sub_error'],), i)
                before = {f: self.abs_mp('recv', getattr(p, t)) for f, t in
                          (('flowspec', 'flowspec_receive_dict'), ('mpls_vpn', 'mpls_vpn_receive_dict'))}
                vpnkeys = set(p.mpls_vpn_receive_dict)
                vbefore = dict(p.receive_version)
                sendbefore = dict(p.send_version)
                exc0 = self.d.exc
                self.do(('data', self.cid, data))
                if self.d.exc != exc0:
                    bad('exception while the UPDATE was processed', i)
                coq.append('(ERecvW %s)' % R.coq_wupdate(msg['attr'], e[1]['nlri'], e[1]['withdraw']))
                # -- oracle: IPv4 table and counter from the start of the connection
                o_in.ipv4(msg)
                if p.adj_rib_in['ipv4'] != o_in.rib:
                    bad('adj_rib_in[ipv4] is not the result of applying the updates in order', i)
                if p.receive_version['ipv4'] != o_in.ver['ipv4']:
                    bad('receive_version[ipv4]=%d, %d table changes so far' % (p.receive_version['ipv4'],
                                                                               o_in.ver['ipv4']), i)
                # -- oracle: flowspec / mpls_vpn / sr_policy per message
                for fam, tbl in (('flowspec', 'flowspec_receive_dict'), ('mpls_vpn', 'mpls_vpn_receive_dict')):
                    exp, n = mp_expect(before[fam], fam, msg['attr'])
                    got = self.abs_mp('recv', getattr(p, tbl))
                    dv = p.receive_version[fam] - vbefore[fam]
                    if got != exp or dv != n:
                        known = None
                        if fam == 'mpls_vpn' and self.is_vpn_label_case(before[fam], vpnkeys, msg['attr'], got, dv):
                            known = KNOWN_VPN
                        viol.append({'what': 'received %s: counter moved by %d for %d table changes; table %s'
                                     % (fam, dv, n, 'as expected' if got == exp else 'differs'),
                                     'step': i, 'known': known})
                if p.receive_version['sr_policy'] != vbefore['sr_policy'] or p.sr_receive_dict:
                    bad('sr_policy received state moved', i)
                if p.send_version != sendbefore:
                    bad('send_version moved by a received UPDATE', i)
            elif e[0] == 'send':
                msg = e[1]
                sbefore = {f: self.abs_mp('send', getattr(p, t)) for f, t in
                           (('flowspec', 'flowspec_send_dict'), ('mpls_vpn', 'mpls_vpn_send_dict'),
                            ('sr_policy', 'sr_send_dict'))}
                vbefore = dict(p.send_version)
                rbefore = dict(p.receive_version)
                if mode == 'flask':
                    body = {'attr': {str(k): v for k, v in msg['attr'].items()},
                            'nlri': msg['nlri'], 'withdraw': msg['withdraw']}
                    r = self.client.post('/v1/peer/%s/send/update' % PEER, data=json.dumps(body), headers=self.hdr)
                    if r.status_code != 200:
                        bad('REST send/update answered %d' % r.status_code, i)
                    stored = {'attr': effective_attr(msg['attr'], self.ibgp),
                              'nlri': list(msg['nlri']), 'withdraw': list(msg['withdraw'])}
                else:
                    stored = {'attr': effective_attr(msg['attr'], self.ibgp),
                              'nlri': list(msg['nlri']), 'withdraw': list(msg['withdraw'])}
                    ok = p.update_rib_out_ipv4(stored)
                    if ok is not True:
                        bad('update_rib_out_ipv4 returned %r' % (ok,), i)
                    p.update_send_version(PEER, stored['attr'], stored['nlri'], stored['withdraw'])
                coq.append('(ESend %s)' % R.coq_update(stored))
                o_out.ipv4(stored)
                if p.adj_rib_out['ipv4'] != o_out.rib:
                    bad('adj_rib_out[ipv4] is not the result of applying the updates in order', i)
                if p.send_version['ipv4'] != o_out.ver['ipv4']:
                    bad('send_version[ipv4]=%d, %d table changes so far' % (p.send_version['ipv4'],
                                                                            o_out.ver['ipv4']), i)
                for fam, tbl in (('flowspec', 'flowspec_send_dict'), ('mpls_vpn', 'mpls_vpn_send_dict'),
                                 ('sr_policy', 'sr_send_dict')):
                    exp, n = mp_expect(sbefore[fam], fam, stored['attr'])
                    got = self.abs_mp('send', getattr(p, tbl))
                    dv = p.send_version[fam] - vbefore[fam]
                    if got != exp or dv != n:
                        bad('sent %s: counter moved by %d for %d table changes; table %s'
                            % (fam, dv, n, 'as expected' if got == exp else 'differs'), i)
                if p.receive_version != rbefore:
                    bad('receive_version moved by a sent UPDATE', i)
            else:
                old = p
                if e[0] == 'close':
                    who = 'closed by yabgp itself: %s' % e[1]
                    self.local_close(e[1])
                    coq.append('EClose')
                    states.append(R.state(old))
                    if not old.disconnected:
                        bad('closeConnection did not mark the protocol object as disconnected (%s)' % e[1], i)
                else:
                    who = 'dropped by the peer'
                self.do(('lost', self.cid))
                coq.append('ELost')
                states.append(R.state(old))
                if any(v for v in old.adj_rib_in.values()) or any(v for v in old.adj_rib_out.values()):
                    bad('Adj-RIB not empty after the session dropped (%s)' % who, i)
                self.reconnect()
                p = self.proto
                coq.append('ENew')
                o_in, o_out = Oracle(), Oracle()
                if p is old:
                    bad('no new protocol object after reconnect', i)
                if any(v for v in p.adj_rib_in.values()) or any(v for v in p.adj_rib_out.values()) or \
                        any(p.receive_version.values()) or any(p.send_version.values()) or \
                        p.flowspec_receive_dict or p.mpls_vpn_receive_dict or p.flowspec_send_dict or \
                        p.mpls_vpn_send_dict or p.sr_send_dict or p.disconnected:
                    bad('tables/counters of the new connection are not empty/zero', i)
            states.append(R.state(self.proto))
        return coq, states, viol

    # -- abstraction of an implementation dictionary for the oracle: route identity -> value
    def abs_mp(self, side, d):
        out = {}
        for k, v in d.items():
            rule = self.render.keys[side].get(k)
            fam = FAMS.get(tuple(v[14]['afi_safi'])) if 14 in v else None
            rid = ('?', k) if rule is None else route_identity(fam, rule)
            if rid in out:
                rid = ('dup', k)              # two entries for one route: never equal to the oracle's table
            out[rid] = canon(v)
        return out

    @staticmethod
    def is_vpn_label_case(before, rawkeys, attr, got, dv):
        """known class: the message withdraws VPNv4 routes that are present under a key string with ANOTHER
        label than the withdrawal's (always 0x800000 on the wire); observed: table and counter exactly as if
        those withdrawals were not there.  A withdrawal whose own key string is in the dictionary (same label)
        is outside the class: it must be applied and counted."""
        if 15 not in attr or tuple(attr[15]['afi_safi']) != (1, 128):
            return False
        keys = set(rawkeys)
        if 14 in attr and tuple(attr[14]['afi_safi']) == (1, 128):
            keys |= {keystr(r) for r in attr[14]['nlri']}
        kept = [r for r in attr[15]['withdraw'] if keystr(r) in keys]
        if len(kept) == len(attr[15]['withdraw']):
            return False
        a2 = dict(attr)
        a2[15] = dict(attr[15], withdraw=kept)
        exp, n = mp_expect(before, 'mpls_vpn', a2)
        return got == exp and dv == n


# ------------------------------------------------------------------------------------------
# traces
# ------------------------------------------------------------------------------------------
def gen_traces(ctx):
    """[(kind, [events])]"""
    rng = ctx.rng
    out = []
    ra, sa = recv_alphabet(False), send_alphabet(False)
    for al, kind in ((ra, 'recv-exhaustive'), (sa, 'send-exhaustive')):
        for n in (1, 2, 3):
            for t in itertools.product(range(len(al)), repeat=n):
                if t[-1] == len(al) - 1 and n > 1 and ctx.tier == 'quick' and t[0] == len(al) - 1:
                    continue                   # drop ... drop: covered by shorter traces
                out.append((kind, [al[i] for i in t]))
    # -- both kinds of session end: the peer drops it / yabgp closes it (4 ways), tables non-empty
    for al, side in ((ra, 'recv'), (sa, 'send')):
        letters = [x for x in al if x[0] != 'drop']
        for x in letters:
            for d in DROPS:
                out.append((side + '-then-drop', [x, d]))
        for d in (DROPS if ctx.thorough else [('close', 'hdr')]):
            for x in letters:
                for y in letters:
                    out.append((side + '-drop-between', [x, d, y]))
                    if ctx.thorough:
                        out.append((side + '-pair-then-drop', [x, y, d]))
    out.append(('both-directions-then-drop', [ra[0], sa[1], ra[7], sa[7], ra[10], sa[10], ('close', 'hdr')]))
    for d in DROPS:
        out.append(('both-directions-then-drop', [ra[0], sa[0], d, ra[2], sa[2], d]))
    # -- one UPDATE with every combination of {nlri, withdraw, 14, 15}
    for side in ('recv', 'send'):
        cl, su, fu = combo_letters(side), combo_setup(side), combo_followups(side)
        for c in cl:
            out.append((side + '-combined', [c]))
            out.append((side + '-combined-after-setup', su + [c]))
            for w in fu:
                out.append((side + '-combined-then-withdraw', su + [c, w]))
        if ctx.thorough:
            for c in cl:
                for c2 in cl:
                    out.append((side + '-combined-pairs', su + [c, c2]))
    # -- padding bits of received prefixes; identical re-announcements
    out += short_traces(pad_alphabet(), 'recv-padding', 6, ctx.thorough)
    out += short_traces(reann_alphabet(), 'send-reannounce', 5, ctx.thorough)
    # -- the other session configuration: iBGP (kind 'ibgp/...': run on a second peering)
    out += short_traces(reann_alphabet(), 'ibgp/send-reannounce', 5, ctx.thorough)
    for al, side in ((ra, 'recv'), (sa, 'send')):
        for n in ((1, 2, 3) if ctx.thorough else (1, 2)):
            for t in itertools.product(range(len(al)), repeat=n):
                out.append(('ibgp/%s-exhaustive' % side, [al[i] for i in t]))
        for x in al[:-1]:
            for d in DROPS:
                out.append(('ibgp/%s-then-drop' % side, [x, d]))
    if ctx.thorough:
        cl, su = combo_letters('send'), combo_setup('send')
        for c in cl:
            out.append(('ibgp/send-combined-after-setup', su + [c]))
    rb, sb = recv_alphabet(True), send_alphabet(True)
    if ctx.thorough:
        ipv4 = [e for e in ra if e[0] == 'drop' or not (set(e[1]['attr']) & {14, 15})]
        for t in itertools.product(range(len(ipv4)), repeat=4):
            out.append(('recv-exhaustive-4-ipv4', [ipv4[i] for i in t]))
        for al, kind in ((rb, 'recv-pairs-big'), (sb, 'send-pairs-big')):
            for t in itertools.product(range(len(al)), repeat=2):
                out.append((kind, [al[i] for i in t]))
    nrand = 600 if ctx.thorough else 60
    mixed = rb + sb
    for k in range(nrand):
        n = rng.choice([5, 8, 12, 20, 40] if ctx.thorough else [5, 8, 12, 20])
        al = mixed if k % 3 == 0 else (rb if k % 3 == 1 else sb)
        out.append(('ibgp/random' if k % 4 == 3 else 'random', [rng.choice(al) for _ in range(n)]))
    return out


def describe(e):
    if e[0] == 'drop':
        return ['drop']
    if e[0] == 'close':
        return ['close', e[1]]
    m = e[1]
    a = {str(k): v for k, v in m['attr'].items()}
    return [e[0], json.loads(json.dumps({'attr': a, 'nlri': m['nlri'], 'withdraw': m['withdraw']}))]


def run(ctx):
    traces = gen_traces(ctx)
    traces.sort(key=lambda t: t[0].startswith('ibgp/'))      # stable: one peering at a time (global CONF)
    runner = Runner()
    cases, viol, mism = [], [], []
    n_events = 0
    flask_runs = 0
    kinds = {}
    n_both = sum(1 for _k, evs in traces for e in evs
                 if e[0] in ('recv', 'send') and 14 in e[1]['attr'] and 15 in e[1]['attr'])
    n_pad = sum(1 for _k, evs in traces for e in evs if e[0] == 'recv'
                for x in e[1]['nlri'] + e[1]['withdraw'] if ppad(x))
    for kind, evs in traces:
        kinds[kind] = kinds.get(kind, 0) + 1
        if kind.startswith('ibgp/') and not runner.ibgp:
            runner = Runner(ibgp=True)
        coq, states, v = runner.run(evs, 'direct')
        n_events += len(evs)
        for x in v:
            x['input'] = [describe(e) for e in evs]
            x['kind'] = kind
        viol += v
        cases.append((kind, evs, coq, states))
        if any(e[0] == 'send' for e in evs) and (ctx.thorough or kind != 'send-exhaustive' or len(evs) <= 2
                                                 or ctx.rng.random() < 0.15):
            flask_runs += 1
            coq2, states2, v2 = runner.run(evs, 'flask')
            for x in v2:
                x['input'] = [describe(e) for e in evs]
                x['kind'] = kind + '/REST'
                if x['what'].startswith(('sent', 'adj_rib_out', 'send_version', 'REST')):
                    x['what'] = 'through POST /v1/peer/<ip>/send/update: ' + x['what']
            viol += v2
            if coq2 != coq or states2 != states:
                viol.append({'what': 'REST send path and the direct protocol calls leave different tables/counters',
                             'input': [describe(e) for e in evs], 'known': None, 'kind': kind + '/REST'})
    # de-duplicate violations of one kind (keep the shortest input of each 'what')
    viol.sort(key=lambda x: len(x['input']))
    seen, keep = set(), []
    for x in viol:
        k = (x['what'], x.get('known'))
        if k not in seen:
            seen.add(k)
            keep.append(x)
    viol = keep
    if ctx.coq_ok:
        per = 150
        shards = []
        for i in range(0, len(cases), per):
            body = ';\n'.join('(trace_sx true [%s], %s)' % ('; '.join(c[2]), coq_sx(c[3]))
                              for c in cases[i:i + per])
            shards.append('Definition cases : list (sx * sx) := [\n%s\n].\n'
                          'Eval vm_compute in (mismatches cases).\n' % body)
        for k, (rc, out) in enumerate(common.coq_eval_shards(ctx.prop, shards, imports=IMPORTS)):
            idx = common.parse_nats(out)
            if rc != 0 or idx is None:
                mism.append({'what': 'case file %d does not evaluate: %s' % (k, common.first_error(out))})
                continue
            for i in idx[:5]:
                c = cases[k * per + i]
                mism.append({'what': 'model and implementation differ on a %s trace of %d events'
                             % (c[0], len(c[1])), 'input': [describe(e) for e in c[1]]})
    def first_of(kind):
        for c in cases:
            if c[0] == kind and len(c[1]) > 1 and c[1][-1][0] != 'drop':
                return c
        return None
    nontrivial = sum(1 for c in cases if any(s[0] or s[1] or any(s[2]) or any(s[3]) for s in c[3]))
    return {
        'evaluations': n_events, 'distinct': nontrivial,
        'rule': 'traces of received UPDATEs (octets built by Update.construct, fed to dataReceived), REST/protocol '
                'sends and session ends over a pool of 4 prefixes x 3 attribute sets, 3 flowspec rules, 4 VPNv4 '
                'routes, 2 SR policies; exhaustive over a 13-letter alphabet per direction up to length 3; '
                'every letter followed by each of the 5 kinds of session end (peer drops; yabgp closes: header '
                'error, hold timer, manual stop, NOTIFICATION received) and letter/local close/letter; one UPDATE '
                'with each of the 16 subsets of {IPv4 nlri, withdraw, attribute 14, attribute 15} x the families '
                'of 14 and 15 (same and different; 48 received / 80 sent letters) on empty tables, after a '
                'set-up that fills every table, and followed by a withdrawal of what it should have removed '
                '(thorough: IPv4 letters to length 4, all pairs of a 38-letter (received) and a 36-letter (sent) alphabet, all pairs of combined '
                'letters, every kind of end between/after all letter pairs), plus seeded random mixed traces '
                'up to 40 events; received IPv4 prefixes of length 30, 23 and 1 with different padding bits in announce / '
                're-announce / withdraw positions (14 letters: all traces to length 2, triples of 6); identical '
                're-announcements with and without LOCAL_PREF (9 letters); a second peering in the iBGP '
                'configuration (65001/65001; kinds ibgp/...) for the re-announcement traces, both exhaustive '
                'alphabets to length 2, every kind of session end and a quarter of the random traces; every send '
                'trace outside send-exhaustive also runs through the REST view; every event is compared (whole state incl. the disconnected flag); a trace is '
                'non-trivial when some table or counter is non-empty/non-zero at some point; evaluations = events',
        'samples': [[describe(e) for e in c[1]] for c in
                    (cases[20], cases[500], first_of('recv-then-drop'), first_of('send-combined-then-withdraw'),
                     cases[-1]) if c],
        'mismatches': mism, 'violations': viol,
        'extra': {'traces': len(cases), 'events': n_events, 'trace_kinds': kinds, 'rest_traces': flask_runs,
                  'session_end_kinds': ['drop'] + ['close/' + k for k in CLOSE_KINDS],
                  'updates_with_14_and_15': n_both,
                  'configurations': ['eBGP 65001/65002', 'iBGP 65001/65001'],
                  'received_prefixes_with_nonzero_padding': n_pad,
                  'pool': {'prefixes': len(PREFIXES), 'attribute_sets': len(ATTRS), 'flowspec_rules': len(FS_RULES),
                           'vpnv4_routes': len(VPN_ROUTES), 'sr_policies': len(SR_RULES)}},
    }


def replay(ctx, obj):
    """re-run the stored violation's trace on the implementation; exit status 1 if it still fails"""
    v = obj.get('violation') or {}
    inp = v.get('input')
    if not inp:
        print('nothing to replay:', json.dumps(obj)[:400])
        return 0
    evs = []
    for e in inp:
        if e[0] == 'drop':
            evs.append(('drop',))
        elif e[0] == 'close':
            evs.append(('close', e[1]))
        else:
            m = e[1]

            def fix(a):
                a = {int(k): x for k, x in a.items()}
                if e[0] == 'recv':
                    for t in (14, 15):
                        if t in a:
                            a[t] = dict(a[t], afi_safi=tuple(a[t]['afi_safi']))
                            for f in ('nlri', 'withdraw'):
                                if f in a[t] and a[t]['afi_safi'] == (1, 133):
                                    a[t][f] = [{int(k): x for k, x in r.items()} for r in a[t][f]]
                    if 2 in a:
                        a[2] = [tuple(s) for s in a[2]]
                return a
            evs.append((e[0], {'attr': fix(m['attr']), 'nlri': m['nlri'], 'withdraw': m['withdraw']}))
    kind = str(v.get('kind', ''))
    _, _, viol = Runner(ibgp=kind.startswith('ibgp/')).run(evs, 'flask' if kind.endswith('/REST') else 'direct')
    for x in viol:
        print('still fails: step %s: %s%s' % (x.get('step'), x['what'],
                                              ' [known %s]' % x['known'] if x.get('known') else ''))
    return 1 if any(not x.get('known') for x in viol) else 0
