#!/usr/bin/env python3
"""authoring-time: seeded/RESULTS.md from seeded/*/meta.json"""
import glob, json, os
rows = []
for f in sorted(glob.glob('/verif/seeded/*/meta.json')):
    m = json.load(open(f))
    sid = os.path.basename(os.path.dirname(f))
    cr = m.get('checks_run', {})
    how = []
    for k, v in cr.items():
        line = v.get('line', '')
        if v.get('rc') == 1:
            kind = 'no-failing-input-found (' + line.split('replay=')[-1].split(' ', 1)[-1][:60] + ')' if 'no-failing-input-found' in line else 'failing input found'
            det = (v.get('detail') or [''])[0].strip()[:110]
            how.append('%s: VIOLATION, %s%s' % (k, kind, (' — ' + det) if det and 'no-failing' not in kind else ''))
        else:
            how.append('%s: not reported' % k)
    if m.get('obsolete'):
        how = ['OBSOLETE: ' + m['obsolete']]
    if m.get('before_strengthening'):
        how.append('first pass (before the check was strengthened): not reported')
    rows.append((sid, m.get('property'), m.get('summary', '')[:260].replace('\n', ' ').replace('|', '/'),
                 str(m.get('needs', ''))[:220].replace('\n', ' ').replace('|', '/'), '; '.join(how), m.get('detected')))
out = ['# Seeded changes: which check reports which\n',
       'Each change was written by a fresh sub-agent given only the property text and a scratch worktree; confirmed in a scratch '
       'worktree (patch applies, unit tests still "221 passed", demo.py passes on the unchanged tree and fails on the changed one); '
       'then applied to /repo, `./bin/check <property> --tier quick` (and `--tier thorough` when quick did not report it) run, and reverted.\n',
       '| seed | property | change | needs | result |', '|---|---|---|---|---|']
for r in rows:
    out.append('| %s | %s | %s | %s | %s |' % r[:5])
n = len(rows); d = sum(1 for r in rows if r[5]); o = sum(1 for r in rows if 'OBSOLETE' in r[4])
first_miss = sum(1 for r in rows if 'first pass' in r[4])
out.append('\n%d seeded changes in five rounds (ids _1.._9); %d were not reported on the first pass and led to a '
           'strengthened check; now %d are reported by the check of the property they break, %d became obsolete when the defect they relied '
           'on was repaired.\n' % (n, first_miss, d, o))
open('/verif/seeded/RESULTS.md', 'w').write('\n'.join(out) + '\n')
print(d, 'of', n)
