#!/bin/bash
# authoring-time: apply a proposed patch to /repo as one "fix:" commit (message = text before '---')
set -e
f="$1"
cd /repo
git apply --check "$f"
git apply "$f"
/venv/bin/python -m pytest -q -p no:cacheprovider 2>&1 | tail -1 | grep -q "221 passed" || { echo "TESTS CHANGED"; git checkout -- .; exit 1; }
msg=$(awk '/^---$/{exit} /^--- a\//{exit} /^diff --git/{exit} /^Apply with:/{next} {print}' "$f")
git commit -qam "$msg"
git log --oneline | head -1
