#!/bin/bash
# authoring-time: apply a proposed patch to /repo as one "fix:" commit (message = text before the diff)
set -e
f="$1"
cd /repo
git apply --check "$f"
git apply "$f"
/venv/bin/python -m pytest -q -p no:cacheprovider 2>&1 | tail -1 | grep -q "221 passed" || { echo "TESTS CHANGED"; git checkout -- .; exit 1; }
python3 - "$f" > /tmp/fixmsg.txt <<'PY'
import re, sys
t = open(sys.argv[1]).read()
m = re.split(r'^(?:---$|--- a/|diff --git)', t, maxsplit=1, flags=re.M)[0]
m = '\n'.join(l for l in m.split('\n') if not l.startswith('Apply with:'))
m = re.sub(r'\s*\([^()]*/verif[^()]*\)', '', m)
m = re.sub(r'\n{3,}', '\n\n', m).strip() + '\n'
assert m.startswith('fix:'), m[:80]
sys.stdout.write(m)
PY
git commit -qa -F /tmp/fixmsg.txt
git log --oneline | head -1
