#!/usr/bin/env python3
"""authoring-time helper: emit a Coq record with primitive projections and one setter per field.
usage: mkrecord.py Name mkName prefix field:type ...   (output pasted into the model by hand)"""
import sys
name, ctor = sys.argv[1], sys.argv[2]
fields = [a.split(':', 1) for a in sys.argv[3:]]
print("Record %s : Type := %s {" % (name, ctor))
print(";\n".join("  %s : %s" % (f, t) for f, t in fields))
print("}.")
for f, t in fields:
    body = "; ".join("%s := %s" % (g, ("v" if g == f else "%s r" % g)) for g, _ in fields)
    print("Definition set_%s (v : %s) (r : %s) : %s :=\n  {| %s |}." % (f, t, name, name, body))
