#!/bin/bash
# authoring-time: re-check every compiled property file (and all it depends on) with the independent
# checker and print the axioms the whole context relies on.  ~8 min, after ./bin/setup.
cd "$(dirname "$0")/../coq" || exit 2
mods=""; for i in $(seq -w 1 20); do mods="$mods YV.props.C$i"; done
exec timeout 3000 coqchk -silent -o -Q . YV $mods
