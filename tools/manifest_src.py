NOTES = ('Machine-checked proof in Coq 8.16.1: executable Gallina models of yabgp, theorems per property in '
         'coq/props/Cnn.v (each closed under the global context), tie to /repo by translators (coq/gen/*) and by '
         'a correspondence check evaluating the model inside Coq against the implementation. See DESIGN.md.')
CHECKS = {
 'C14': {
  'text': 'Round-trip theorems for NOTIFICATION, KEEPALIVE and ROUTE-REFRESH for every field value (Coq, unbounded), '
          'model tied to the code by correspondence on boundary/random inputs; the property oracle runs the round trip '
          'on the real codecs.',
  'note': 'hand-written model coq/model/YMsg.v (+YOpen.v) validated by correspondence; Python struct trusted; '
          'OPEN part: see evidence for which theorems are present',
  'technique': 'Coq proof (round-trip theorems) + model/implementation correspondence via vm_compute',
 },
}
NOT_CLAIMED = {}
