NOTES = ('Machine-checked proof in Coq 8.16.1: executable Gallina models of yabgp, theorems per property in '
         'coq/props/Cnn.v (each closed under the global context), tie to /repo by translators (coq/gen/*) and by '
         'a correspondence check evaluating the model inside Coq against the implementation. See DESIGN.md.')
CHECKS = {
 'C14': {
  'text': 'Round-trip theorems for NOTIFICATION, KEEPALIVE and ROUTE-REFRESH for every field value (Coq, unbounded), '
          'model tied to the code by correspondence on boundary/random inputs; the property oracle runs the round trip '
          'on the real codecs.',
  'note': 'hand-written model coq/model/YMsg.v (+YOpen.v) validated by correspondence; Python struct trusted; '
          'OPEN part: see evidence for which theorems are present',
  'technique': 'Coq proof (round-trip theorems) + model/implementation correspondence via vm_compute',
 },
}
CHECKS['C04'] = {
  'text': 'Coq theorems for every decoder behaviour, every chunk list (unbounded) and every buffer: chunking independence of '
          'dataReceived on the tracked connection (C04_chunking), termination with an iteration bound (C04_terminates, '
          'C04_iteration_bound), header errors close the connection (C04_header_error_closes), error sub-codes. The session '
          'reaction inside the framing machine is the FSM regenerated from fsm.py; the hand-written glue is tied by '
          'replaying segmentations of generated streams (all type octets, length-field values, corrupt markers, truncated tails) '
          'on the model and the implementation; an independent reference deframer and the segmentation-independence oracle '
          'run on the real BGP.dataReceived.',
  'note': 'Twisted stub (loseConnection stops reading); decoders are parameters of the model (theorems hold for all of them); '
          'reference-deframer equivalence is checked by the oracle on generated streams, not proved; CPU time is measured, the '
          'theorem bounds loop iterations; see DESIGN.md section 7',
  'technique': 'Coq proof (generic framing machine + session instance, induction over chunk lists) + translator for fsm.py + exploration correspondence',
}
CHECKS['C20'] = {
  'text': 'Coq proof for the repaired code (fix commits b635cb9, 8bf5d07): for all rotation thresholds and all histories of any '
          'length (callbacks, clean restarts, crashes that leave none or all of the line being written) no start refuses, every '
          'line is a complete record, seq +1 across files and restarts, one line per reported event (C20_audit_guarded); the full '
          'statement is refuted by kernel-checked witnesses for a crash that cuts a line (known finding C20-torn-tail). Model tied '
          'to default_handler.py by correspondence on a real temporary directory: all 9 callbacks, restart after every event, every '
          'octet offset of a write. Record sizes: start-up reads the last line whatever its length (octet-level model, '
          'C20_recovery_reads_last_line, C20_recovery_octets_refine) and sizes/thresholds never influence numbering '
          '(C20_recovery_independent_of_sizes); the check writes records of 46 to 70001 octets (thorough 2^20+1) through the real '
          'callbacks: restart right after them, thresholds below/at/above them, torn at every block boundary. Peer addresses: '
          'logs are keyed by the lower-cased address (explicit in the model); spelling irrelevant, peers of one handler '
          'independent, audit for every peer (C20_peer_spelling_irrelevant, C20_peers_independent, C20_audit_every_peer); the '
          'check runs IPv4 / IPv6 lower-, upper-, mixed-case addresses, changing spellings and two peers per handler x rotations '
          'x restarts, non-canonical IPv6 text forms, callbacks made through a real BGPPeering/protocol object built from the '
          'configuration (C20_agent_wiring; factory.peer_addr compared each run). Non-ASCII event text: in the payload pool, plus '
          'histories in a child process with an ASCII default encoding (LC_ALL=C, PYTHONUTF8=0) incl. locale changes across restarts.',
  'note': 'abstract file system (append/truncate/getsize; fsync-per-write assumption checked at run time); complete JSON <=> parseable '
          '(validated at every swept offset); file names sort in creation order (driven clock); simplejson stub',
  'technique': 'Coq proof (induction over histories) + refutation witnesses + model/implementation correspondence with crash injection at every byte offset',
}
CHECKS['C14'] = {
  'text': 'Coq theorems at full strength, for all field values and unbounded capability lists: OPEN round trip incl. the AS_TRANS rule and the '
          'no-optional-parameter case (C14_open_roundtrip), decoding of an independent RFC reference encoder for any capability subset/order/'
          'packaging (C14_open_decodes_reference), construct = reference encoding, NOTIFICATION / KEEPALIVE / ROUTE-REFRESH round trips. Models tied '
          'to the code by correspondence (2^7 capability-key subsets x AS/hold/id boundaries, reference-encoded and malformed bodies) and the round-trip '
          'oracle on the real codecs.',
  'note': 'hand-written models coq/model/YMsg.v, YOpen.v; capability code constants and AFI/SAFI tables copied into the model and compared with the '
          'live modules each run; Python struct trusted; model is of the code with fix e89d08b (Open.parse return value)',
  'technique': 'Coq proof (round-trip and reference-encoder theorems) + model/implementation correspondence via vm_compute',
}
CHECKS['C10'] = {
  'text': 'Coq theorems for every decoder behaviour (decoders are parameters of the session model): nothing escapes along any event sequence from boot '
          '(C10_no_escape: no unhandled exception, no non-terminating receive loop; invariant over the generated FSM + glue), at most one report per '
          'well-framed message, a malformed UPDATE keeps the Established session, re-arms the hold timer and leaves the connection record (decode mode) '
          'untouched; after any event sequence the agent is in session on a connected transport or has its reconnect scheduled '
          '(C10_in_session_or_reconnect_scheduled, reachability invariant). Tie: FSM regenerated from fsm.py; glue by correspondence on hostile inputs (every bytes '
          'literal of the unit tests as UPDATE body, mutations, structure-aware OPENs with random capability sets, random) in OpenSent/OpenConfirm/Established followed '
          'by known-good messages; oracle on the implementation incl. CPU budget per delivered chunk (hang detection).',
  'note': 'decoders are parameters of the model, so their termination is not a theorem here (C11 proves it per loop); the CPU budget on the implementation covers it in this check; Twisted stub; handler callbacks assumed not to raise',
  'technique': 'Coq proof (invariant by induction over event lists, generic preservation over generated FSM code) + translator + exploration correspondence',
}
CHECKS['C18'] = {
  'text': 'Coq theorem: over any history (unbounded) during the lifetime of the tracked connection, for every decoder behaviour, every sent counter grows by '
          'exactly the number of messages of that type written to it (C18_sent_counters_match); exact characterisation of what one dispatched frame adds '
          'to the receive counters (C18_recv_counts) with the three deviations from the property as known findings. Tie: generated FSM + exploration '
          'correspondence; oracle compares every counter with the simulated transport write log and an independent deframer on every explored path.',
  'note': 'model is of the code with fixes b82538e (NOTIFICATION counted twice) and de42791 (send_bin_update); known findings C18-short-open-counted, '
          'C18-update-decode-exception-not-counted, C18-rr-length-not-counted; single-connection lifetime (see C12 for overlapping connections)',
  'technique': 'Coq proof (additive invariant, induction over event lists) + translator + exploration correspondence',
}
CHECKS['C19'] = {
  'text': 'Coq theorems (unbounded update lists, duplicates allowed): model/YRib.v refines the finite-map spec for Adj-RIB-In/Out, tables empty after a drop, '
          'every version counter moves by exactly the number of table changes per family and direction; the connection record has the disconnected flag and the tables are empty '
          'after a remote drop and after every locally initiated close + connectionLost (C19_empty_after_any_drop); attribute 15 is applied whatever else the UPDATE '
          'carries (C19_unreach_applied_*). Model tied to protocol.py by whole-state per-event '
          'correspondence on exhaustive short and random traces through dataReceived, the protocol calls and the REST view, plus an independent dictionary oracle.',
  'note': 'model is of the code with fix af203e7; received VPNv4 withdrawals are known finding C19-vpnv4-withdraw-label (refuted theorem + theorem for identity '
          'incl. label); Update codecs, value interning and key-string injectivity trusted',
  'technique': 'Coq proof (refinement to an abstract map, induction over update lists) + model/implementation correspondence via vm_compute',
}
CHECKS['C07'] = {
  'text': 'Coq round-trip theorems for all in-range values (prefix lengths fully symbolic) for IPv6 unicast (reach/unreach, next hops with and without '
          'link-local), route distinguishers, label stacks, VPNv4/VPNv6, IPv4/IPv6 labeled unicast, each under its exact guard with a kernel-checked '
          'refuted witness per guard; flowspec operator lists proved; the flowspec rule length prefix proved for every body length 1..4095 in both forms '
          '(C07_flowspec_length_prefix_*); EVPN route types 1-4 with ESI types 0-5 and MAC text proved for all values (model/YEvpn.v, C07_evpn_*). Models tied by correspondence (6.7k cases '
          'quick, incl. exact encoded sizes around every length-form switch: rule body 240, attribute 255/256, 65535/65536) with zero mismatches.',
  'note': 'guards = known findings (IPv6 values < 2^32 render as IPv4, label 0 without bottom-of-stack, deeper label stacks in VPN, trailing double ::/0, '
          'labeled-unicast unreach paths, flowspec /0 and tcp-flags, EVPN IPv6 address below 2^32) listed in known_findings.json; netaddr text<->integer conversions trusted',
  'technique': 'Coq proof (round-trip theorems per family, refutation witnesses) + model/implementation correspondence via vm_compute + round-trip oracle',
}
CHECKS['C08'] = {
  'text': 'An independent structural walker written in Coq from the RFCs (spec/Walker.v, shares no code with yabgp) with proved sanity lemmas and rejected near-miss '
          'examples, and validity theorems for ALL inputs of the constructor models: NOTIFICATION, KEEPALIVE, ROUTE-REFRESH, IPv4 prefix lists, twelve standard '
          'attributes, OPEN with every capability configuration (C08_open_valid), the whole UPDATE assembly (valid iff <= 4096 octets: C08_update_assembly, '
          'C08_update_of_blocks; Update.construct never checks the limit: C08_update_refuted, known finding), MP_REACH/MP_UNREACH for IPv6 unicast, VPNv4/6, '
          'labeled unicast and IPv4 flow specification (C08_mp_*), communities from API text, the PMSI tunnel attribute for any integers, either endpoint family and '
          'every evpn_overlay argument (C08_pmsi_valid, C08_pmsi_in_range_constructs). The construct-only families (EVPN, SR-TE, IPv6 flowspec, tunnel '
          'encapsulation, add-path UPDATEs) are decided by evaluating the Coq walker on the implementation output over exhaustive/boundary/free-text input spaces.',
  'note': 'theorems cover the modelled constructors (tied to the code by the correspondence runs of C06/C07/C14/C17, re-run witnesses and the PMSI construct/parse correspondence here); the rest is the '
          'walker run as an oracle (test, not proof); 5 known findings (C08-oversize, C08-flowspec-and-dropped, C08-flowspec6-offset, C08-label0-no-bos, '
          'C08-srte-ipv6-endpoint); model is of the code with fixes 2751f81, 4aa533e, e38c734, 4becf3b, 480662d',
  'technique': 'Coq proof (validity theorems of constructor models against a Coq-specified structural walker) + walker evaluated by vm_compute on real constructor output + model/implementation correspondence',
}
CHECKS['C11'] = {
  'text': 'Every while loop (41) and recursive call site (3) of yabgp/message/** - list regenerated from the source by harness/inventory.py and proved equal to '
          'the modelled list - is proved in Coq to make progress, hence to end within length(d) iterations for all inputs and all element decoders; nested TLV '
          'and recursive SRv6 work bounded by length(d) in total; Update.parse returns a result for every body whose length fields are in range. The code as '
          'found is refuted (C11_srcap_refuted, C11_labeled_nlri_refuted) and repaired (fix commits acd574e, f65d182).',
  'note': 'modelled, not proved: the hand transcription of each loop body (tied by fingerprint lemma + iteration-count correspondence), finiteness of for-iterables, '
          'totality of straight-line decoders; CPU budget measured on the implementation under a per-call alarm',
  'technique': 'Coq proof (progress per loop, induction) + source inventory translator (fail-closed) + exhaustive short-input / mutation runs under CPU alarm',
}
CHECKS['C12'] = {
  'text': 'The full statement is REFUTED by kernel-checked witnesses (connect-retry expiry, or manual start, while an attempt is pending: known findings '
          'C12-retry-while-connecting, C12-start-while-connecting) and PROVED everywhere else: C12_at_most_one_outside_known_findings — along every event sequence after '
          'start-up that avoids exactly those two triggers (any bytes, any order of connection results/losses incl. a late completion of a close, any timer order, '
          'manual stops, API sends, every decoder behaviour) at most one connection is live and every open connection not being closed is the tracked one '
          '(reachability invariant SR + RP + CD + timer well-formedness; every generated FSM method x state by symbolic execution with a symbolic connection table, '
          'framing loop by induction). Every message written in a step goes to the tracked connection (C12_writes_to_tracked). The oracle checks live<=1, '
          'writes-to-tracked, no-open-untracked-connection and the proof obligation "no hold/keepalive timer outside a session" after every step of an exhaustive '
          'de-duplicated exploration (retry time below/equal/above the connect timeout) and on directed late-close scenarios; every explored path is replayed on the model.',
  'note': 'model is of the code with fixes 0a14c4f, bdf7c18, 771df94 (three defects found by this proof/check); Twisted stub connector (no timeout of its own: the '
          'driver fails attempts)',
  'technique': 'Coq proof (reachability invariant by induction over event lists, per-method symbolic execution, generic preservation) + kernel-checked refutation witnesses + translator + exploration correspondence',
}
CHECKS['C13'] = {
  'text': 'Coq theorems for every decoder behaviour: what a stop does (Idle, automatic start off, all timers cancelled: C13_stop_effects; Cease then close when '
          'Established: C13_stop_sends_cease); from the stopped state no event sequence of any length without a manual start writes a message or starts a connection '
          '(C13_silent_after_stop, induction over event lists); a stop issued in ANY world reachable without the C12 departures and with no attempt pending reaches that '
          'stopped state (C13_stop_reaches_stopped, C13_stop_then_silent); manual start connects at once / is a no-op when up. The full statement is refuted by a witness '
          '(stop with an attempt in flight: known finding). Oracle: stop issued in every explored abstract state, bounded continuations, then start; traces replayed on the model.',
  'note': 'the stopped state requires no pending attempt and no second open connection at stop time (known findings C13-stop-does-not-abort-attempt, '
          'C13-stop-leaves-untracked-connection)',
  'technique': 'Coq proof (symbolic execution of the generated FSM, invariant by induction) + refutation witness + exploration correspondence',
}
SESSION_NOTE = ('FSM methods regenerated from yabgp/core/fsm.py on every run (fail-closed translator); protocol.py/factory.py/timer.py glue and the '
                'abstract reactor are a hand-written model tied by exploration correspondence (every explored trace replayed on the model in Coq); '
                'Twisted is replaced by the deterministic stub in harness/stubs; decoders enter as parameters. ')
CHECKS['C01'] = {
  'text': 'Coq theorem: for every world of the single-connection regime (any timers, hold times, history) and every (state, event) pair the RFC 4271 profile '
          '(spec/RfcFsm.v, written from the RFC) lets occur, outside two listed departures, the reaction of the generated FSM method - next state, NOTIFICATION '
          'code/subcode, close, messages, new attempt, restart pending - is the prescribed one, and ignored events change nothing (C01_conforms); the departures are '
          'exactly the listed cells (C01_departures_exact, known findings); Established only after OPEN then KEEPALIVE; error rows notify-close-Idle. Oracle: the same '
          'Coq table evaluated on the reactions of the real code for every (state, event) edge reached by exhaustive de-duplicated exploration.',
  'note': SESSION_NOTE + 'Active state and (state, event) pairs that cannot occur in the profile are excluded by [applicable]; 2 known findings C01-* (three more departures were repaired: 8b5b420, 0d4b4a7, 8dcd724); the mapping from wire '
          'messages to RFC events is the dispatch glue (C04/C05/C10)',
  'technique': 'Coq proof (symbolic execution of the generated FSM against an RFC table) + translator + exploration correspondence',
}
CHECKS['C02'] = {
  'text': 'Coq theorems for every decoder behaviour: every error close and every connection end re-arm the restart timer in ANY world; its expiry connects; from ANY '
          'world that is Idle with the restart pending the cooperative continuation reaches Established when the idle-hold period ends, with hold = min(configured, '
          'proposed) and an OPEN carrying the configured hold time (C02_recovers); it then stays up while KEEPALIVEs arrive (C02_stays_up, induction); and the invariant '
          'C02_reconnect_pending: along EVERY event sequence after start-up (any connection results/losses on any connection, any bytes, any timer order, operator stop/start, '
          'API sends), unless the operator stopped the peer, the FSM is in a session state on its connected tracked transport, or Idle with the restart timer armed or the close '
          'of the tracked connection in progress, or in Connect with the connect-retry timer armed; Active is never entered (induction over event lists; every generated FSM '
          'method x state by symbolic execution). Oracle: reconnection pending in every explored abstract state, recovery within idle_hold + connect_retry + 1 s and still up '
          'three hold times later, several timer configurations.',
  'note': SESSION_NOTE + 'Model is of the code with fix 336756d',
  'technique': 'Coq proof (reachability invariant by induction over event lists with per-method symbolic execution, 4-step recovery script, induction for stays-up) + translator + exploration correspondence',
}
CHECKS['C03'] = {
  'text': 'Coq theorems for ARBITRARY hold times: negotiation = min and keepalive period = H/3; entering OpenConfirm arms keepalive H/3 and hold H (neither when H = 0); '
          'keepalive expiry sends one KEEPALIVE and re-arms H/3 later; KEEPALIVE/UPDATE arrival restarts the hold timer from that instant; hold expiry sends (4,0), closes, Idle; '
          'OpenSent limit 240 s; and over any sequence of arrivals, own timer expiries, REST sends and time (induction) the session stays Established with the hold deadline '
          'exactly H after the last arrival. Oracle: the contract on virtual-time stamps of the real code over configured x proposed hold times and arrival schedules just '
          'below/at/above H, bursts, long runs, both same-instant orders.',
  'note': SESSION_NOTE + 'time in thirds of a second; timers are fired by the driver at their deadline; model is of the code with fix 46c885c (H = 0)',
  'technique': 'Coq proof (symbolic execution with symbolic times, induction over event lists) + translator + exploration correspondence',
}
CHECKS['C05'] = {
  'text': 'Coq theorems: the OPEN written at connection start in ANY world carries the configured AS (AS_TRANS rule), the CONFIGURED hold time, the configured identifier and '
          'capabilities computed from the capability dictionary, which after any history is a sub-list of the configured one (C05_caps_subset_of_config, invariant); the '
          'acceptance policy (version error / wrong AS / hold 1-2 / accept with hold = min) for every decoder result. Refuted by kernel-checked witnesses: capability pruning '
          'across sessions and 4-octet-AS parsing without the local capability (known findings). Oracle: OPEN of every session after histories of accepted/rejected sessions, '
          'acceptance reactions, AS_PATH delivered, over AS numbers across the 2/4-octet boundary, hold times and capability configurations.',
  'note': SESSION_NOTE + 'known findings C05-capability-pruning, C05-asn4-without-local-capability (the hold-time finding was repaired: 3dd1a2d); OPEN octets are C14',
  'technique': 'Coq proof (invariant + symbolic execution) + refutation witnesses + translator + exploration correspondence',
}
CHECKS['C06'] = {
  'text': 'Coq theorem at full strength: for every message in the stated ranges, both AS modes - all prefix lengths 0..32 with any zero-host-bit address, lists of any '
          'length, the twelve attributes with any in-range values, AS_PATH in both length forms, announce+withdraw - parse(construct m) = canon m (C06_roundtrip) plus per-attribute '
          'and prefix theorems. Models tied by correspondence of construct and parse at message, attribute-list and prefix-list level (10.7k cases quick) and a round-trip oracle.',
  'note': 'models describe yabgp after fix commits 6dc6c6c, b43e57e, 8ac4786, 4a1d2b7, 2a04047, 1b66d76, 7c29b1a; one domain restriction visible in wf and witnessed by '
          'C06_nlri_without_attributes_refuted (known finding); communities compared in the decoder text form via tagged values (decimal rendering, netaddr trusted)',
  'technique': 'Coq proof (round trip by induction and 33-way arithmetic case split) + model/implementation correspondence via vm_compute',
}
CHECKS['C09'] = {
  'text': 'Coq theorems: the model decoder decodes every encoding of an independent RFC reference encoder (spec/RefUpdate.v) - all variants (2-/4-octet AS, add-path ids, '
          'forced Extended Length, arbitrary trailing prefix bits, any attribute order, multi-segment AS paths, AS4_PATH/AS4_AGGREGATOR), all values, unbounded lists - to the '
          'encoded values, and rejects every single-field malformation (C09_rejects). At the agent call site the first half holds iff add-path is not negotiated (refuted '
          'witness = known finding C09-addpath-not-wired). Oracle: Python transcription of the reference encoder (cross-checked against the Coq one) feeding the real decoder.',
  'note': 'decoder model tied by correspondence on every reference encoding and corruption; model is of the code with fix 7c29b1a; extended communities limited to route-target/-origin forms',
  'technique': 'Coq proof (reference encoder vs decoder model, all variants) + model/implementation correspondence via vm_compute',
}
CHECKS['C15'] = {
  'text': 'Coq theorems for all byte strings: concatenation law for IPv4 prefix lists (with/without add-path), communities / extended / large / cluster list, AS_PATH, OPEN '
          'capabilities and optional parameters, one generic theorem for every TLV walker shape with the element decoder universally quantified, IPv6 unicast under its guard '
          '(two refutations), VPNv4/v6; attribute permutation and unknown-attribute / unknown-TLV transparency. Oracle on the real decoders for all 44 list kinds: all pairs '
          'from per-kind pools covering every element width, k-tuples, permutations, unknown TLV insertion.',
  'note': 'EVPN, BGP-LS NLRIs/descriptors, link-state TLVs, Prefix-SID: oracle only (framing covered by the generic TLV theorem); labeled unicast, flowspec components: oracle + '
          'correspondence; 4 known findings C15-*',
  'technique': 'Coq proof (concatenation laws by induction, generic walker theorem) + model/implementation correspondence + all-pairs oracle',
}
CHECKS['C16'] = {
  'text': 'The route table and decorator chains of the live Flask app are regenerated on every run (source AST and live __wrapped__ chain must agree, fail-closed) and proved equal '
          'to the modelled table; Coq theorems: 401 and no effect without valid credentials, every peer route authenticated, Established gate, exact wire content of a successful '
          'send incl. the iBGP default LOCAL_PREF. Exhaustive sweep: every rule x 7 methods x 12 credential variants x 12 session states x {eBGP, iBGP} through the Flask test '
          'client against the real peering, judged by a model-free oracle and by model = implementation.',
  'note': 'theorems are shallow by nature, the weight is in the exhaustive sweep; Flask/Werkzeug/Flask-HTTPAuth trusted as installed; Update.construct is a model parameter; '
          'C16_send_exact assumes the FSM tracks a connected transport while Established (checked in every state reached)',
  'technique': 'Coq proof over a generated route inventory (translator) + exhaustive request sweep with model/implementation correspondence',
}
CHECKS['C17'] = {
  'text': 'Coq theorems for every in-range value: 15 of 18 wire formats of the 14 extended-community kinds, all 2^32 communities incl. well-known names, all large communities: '
          'REST text is accepted, re-encodes to the RFC octets (independent spec/RefCom.v) and decodes to the same text. 4-octet-AS route-target/-origin refuted for AS < 65536 '
          '(known finding) and proved under that guard; traffic-rate, es-import, router-mac partial. Oracle through the real Flask json_to_bin route on an Established peering.',
  'note': 'decimal/hex/IPv4/MAC text handled by proved lemmas in lib/Dec.v; models of extcommunity.py, community.py, largecommunity.py and the v1.py recombination tied by ~7k '
          'correspondence cases incl. the name tables; model is of the code with fixes 37338b8, 8ac4786, 4a1d2b7, 1b66d76',
  'technique': 'Coq proof (text <-> octets round trips with decimal-string lemmas) + model/implementation correspondence via vm_compute',
}
NOT_CLAIMED = {}
