NOTES = ('Machine-checked proof in Coq 8.16.1: executable Gallina models of yabgp, theorems per property in '
         'coq/props/Cnn.v (each closed under the global context), tie to /repo by translators (coq/gen/*) and by '
         'a correspondence check evaluating the model inside Coq against the implementation. See DESIGN.md.')
CHECKS = {
 'C14': {
  'text': 'Round-trip theorems for NOTIFICATION, KEEPALIVE and ROUTE-REFRESH for every field value (Coq, unbounded), '
          'model tied to the code by correspondence on boundary/random inputs; the property oracle runs the round trip '
          'on the real codecs.',
  'note': 'hand-written model coq/model/YMsg.v (+YOpen.v) validated by correspondence; Python struct trusted; '
          'OPEN part: see evidence for which theorems are present',
  'technique': 'Coq proof (round-trip theorems) + model/implementation correspondence via vm_compute',
 },
}
CHECKS['C04'] = {
  'text': 'Coq theorems for every decoder behaviour, every chunk list (unbounded) and every buffer: chunking independence of '
          'dataReceived on the tracked connection (C04_chunking), termination with an iteration bound (C04_terminates, '
          'C04_iteration_bound), header errors close the connection (C04_header_error_closes), error sub-codes. The session '
          'reaction inside the framing machine is the FSM regenerated from fsm.py; the hand-written glue is tied by '
          'replaying segmentations of generated streams (all type octets, length-field values, corrupt markers, truncated tails) '
          'on the model and the implementation; an independent reference deframer and the segmentation-independence oracle '
          'run on the real BGP.dataReceived.',
  'note': 'Twisted stub (loseConnection stops reading); decoders are parameters of the model (theorems hold for all of them); '
          'reference-deframer equivalence is checked by the oracle on generated streams, not proved; CPU time is measured, the '
          'theorem bounds loop iterations; see DESIGN.md section 7',
  'technique': 'Coq proof (generic framing machine + session instance, induction over chunk lists) + translator for fsm.py + exploration correspondence',
}
CHECKS['C20'] = {
  'text': 'Coq proof for the repaired code (fix commits b635cb9, 8bf5d07): for all rotation thresholds and all histories of any '
          'length (callbacks, clean restarts, crashes that leave none or all of the line being written) no start refuses, every '
          'line is a complete record, seq +1 across files and restarts, one line per reported event (C20_audit_guarded); the full '
          'statement is refuted by kernel-checked witnesses for a crash that cuts a line (known finding C20-torn-tail). Model tied '
          'to default_handler.py by correspondence on a real temporary directory: all 9 callbacks, restart after every event, every '
          'octet offset of a write.',
  'note': 'abstract file system (append/truncate/getsize; fsync-per-write assumption checked at run time); complete JSON <=> parseable '
          '(validated at every swept offset); file names sort in creation order (driven clock); simplejson stub',
  'technique': 'Coq proof (induction over histories) + refutation witnesses + model/implementation correspondence with crash injection at every byte offset',
}
NOT_CLAIMED = {}
