#!/usr/bin/env python3
"""authoring-time: confirm a seeded change in a scratch worktree, run the checks against it on /repo
(apply, check, revert), store it under /verif/seeded/<id>/.
usage: seed.py <src dir with patch.diff demo.py meta.json> <seed id> [extra props to run ...]"""
import json, os, shutil, subprocess, sys, time

def sh(cmd, **kw):
    p = subprocess.run(cmd, shell=True, stdout=subprocess.PIPE, stderr=subprocess.STDOUT, **kw)
    return p.returncode, p.stdout.decode('utf-8', 'replace')

src, sid = sys.argv[1], sys.argv[2]
extra = sys.argv[3:]
meta = json.load(open(os.path.join(src, 'meta.json')))
prop = meta['property']
patch = os.path.abspath(os.path.join(src, 'patch.diff'))
demo = os.path.abspath(os.path.join(src, 'demo.py'))
wt = '/tmp/seedconf_%s' % sid
sh('git -C /repo worktree remove --force %s' % wt)
rc, out = sh('git -C /repo worktree add --detach %s HEAD' % wt)
assert rc == 0, out
res = {'seed': sid, 'property': prop}
try:
    rc0, o0 = sh('PYTHONHASHSEED=0 PYTHONPATH=%s timeout 300 /venv/bin/python -B %s' % (wt, demo), cwd=wt)
    res['demo_unchanged_rc'] = rc0
    rc, out = sh('git -C %s apply %s' % (wt, patch))
    res['applies'] = (rc == 0)
    rc, out = sh('cd %s && timeout 600 /venv/bin/python -m pytest -q -p no:cacheprovider 2>&1 | tail -1' % wt)
    res['unit_tests'] = out.strip()
    rc1, o1 = sh('PYTHONHASHSEED=0 PYTHONPATH=%s timeout 300 /venv/bin/python -B %s' % (wt, demo), cwd=wt)
    res['demo_changed_rc'] = rc1
finally:
    sh('git -C /repo worktree remove --force %s' % wt)
res['confirmed'] = bool(res.get('applies') and res.get('demo_unchanged_rc') == 0 and res.get('demo_changed_rc') not in (0, None)
                        and '221 passed' in res.get('unit_tests', ''))
print(json.dumps(res))
if not res['confirmed']:
    sys.exit(1)
# run the checks against it: on /repo itself (apply, check, revert), or — SEED_WORKTREE=1, used while
# other work needs /repo unchanged — on a scratch worktree through YABGP_REPO
os.environ['VERIF_EVIDENCE_DIR'] = os.path.join(os.path.dirname(os.path.dirname(os.path.abspath(__file__))), 'build', 'seed_evidence')
WT = os.environ.get('SEED_WORKTREE') == '1'
envp = ''
if WT:
    wt2 = '/tmp/seedrun_%s' % sid
    sh('git -C /repo worktree remove --force %s' % wt2)
    rc, out = sh('git -C /repo worktree add --detach %s HEAD' % wt2)
    assert rc == 0, out
    rc, out = sh('git -C %s apply %s' % (wt2, patch))
    assert rc == 0, out
    envp = 'YABGP_REPO=%s ' % wt2
else:
    assert sh('git -C /repo status --porcelain')[1].strip() == '', 'repo not clean'
    rc, out = sh('git -C /repo apply %s' % patch)
    assert rc == 0, out
checks = {}
try:
    for p in [prop] + extra:
        t = time.time()
        rc, out = sh('cd /verif && %stimeout 1500 ./bin/check %s --tier quick' % (envp, p))
        lines = [l for l in out.split('\n') if l.startswith('VIOLATION') or l.startswith('OK ')]
        detail = [l for l in out.split('\n') if l.startswith('  ')][:2]
        checks[p] = {'rc': rc, 'line': (lines[-1] if lines else out[-300:])[:400], 'detail': detail, 'wall_s': round(time.time() - t)}
        if rc == 0 and p == prop:
            t = time.time()
            rc2, out2 = sh('cd /verif && %stimeout 3000 ./bin/check %s --tier thorough' % (envp, p))
            lines = [l for l in out2.split('\n') if l.startswith('VIOLATION') or l.startswith('OK ')]
            checks[p + ':thorough'] = {'rc': rc2, 'line': (lines[-1] if lines else out2[-300:])[:400], 'wall_s': round(time.time() - t)}
finally:
    if WT:
        sh('git -C /repo worktree remove --force %s' % wt2)
    else:
        sh('git -C /repo checkout -- .')
    # gen files were regenerated from the changed tree: regenerate from the clean tree
    sh('cd /verif && /venv/bin/python -B harness/common.py regen')
res['checks'] = checks
res['detected'] = any(c['rc'] == 1 for c in checks.values())
dst = os.path.join('/verif/seeded', sid)
os.makedirs(dst, exist_ok=True)
shutil.copy(patch, os.path.join(dst, 'patch.diff'))
shutil.copy(demo, os.path.join(dst, 'demo.py'))
old = os.path.join(dst, 'meta.json')
if os.path.exists(old):
    om = json.load(open(old))
    if om.get('before_strengthening'):
        meta['before_strengthening'] = om['before_strengthening']
    elif om.get('checks_run') and not om.get('detected'):
        meta['before_strengthening'] = om['checks_run']
if os.environ.get('SEED_NOTE'):
    meta['strengthening'] = os.environ['SEED_NOTE']
meta['confirmation'] = {k: res[k] for k in ('demo_unchanged_rc', 'demo_changed_rc', 'unit_tests', 'applies')}
meta['checks_run'] = checks
meta['detected'] = res['detected']
json.dump(meta, open(os.path.join(dst, 'meta.json'), 'w'), indent=1)
print(json.dumps({'seed': sid, 'detected': res['detected'], 'checks': {k: (v['rc'], v['line'][:160]) for k, v in checks.items()}}, indent=1))
