#!/usr/bin/env python3
"""authoring-time: (re)write MANIFEST.json from tools/manifest_src.py"""
import json, os, sys
sys.path.insert(0, os.path.dirname(os.path.abspath(__file__)))
import manifest_src as M
props = [json.loads(l)['id'] for l in open(os.path.join(os.path.dirname(__file__), '..', 'properties.jsonl'))]
checks = []
for pid in props:
    if pid in M.CHECKS:
        c = M.CHECKS[pid]
        checks.append({
            'property_id': pid,
            'quick_cmd': './bin/check %s --tier quick' % pid,
            'thorough_cmd': './bin/check %s --tier thorough' % pid,
            'evidence_file': 'evidence/%s.json' % pid,
            'replay_cmd_template': './bin/check %s --replay {path}' % pid,
            'engine': 'coq',
            'level_claimed': {'category': 'proof', 'text': c['text'], 'design_ref': 'DESIGN.md section 5 (%s)' % pid},
            'level_note': c['note'],
            'technique': c['technique'],
        })
na = [{'property_id': p, 'reason': M.NOT_CLAIMED.get(p, 'model, theorem and tie not built yet; not claimed (see DESIGN.md section 5)')}
      for p in props if p not in M.CHECKS]
man = {
    'version': 1,
    'setup_cmd': './bin/setup',
    'hooks': {'guard': 'YABGP_VERIF', 'enable': 'none needed: no hook was added to smartbgp/yabgp; the checks import /repo with stub twisted/radix/simplejson modules from /verif/harness/stubs first on sys.path',
              'baseline_off_cmd': 'cd /repo && /venv/bin/python -m pytest -ra -q -p no:cacheprovider --timeout=900 --continue-on-collection-errors',
              'source_commits': [], 'add_only': True},
    'engines': [{'name': 'coq', 'path': 'coq/', 'serves_properties': sorted(M.CHECKS),
                 'kind_free_text': 'Coq 8.16.1 development (models, specs, proofs) + Python correspondence harness evaluating the models with vm_compute'}],
    'checks': checks,
    'not_applicable': na,
    'notes': M.NOTES,
}
json.dump(man, open(os.path.join(os.path.dirname(__file__), '..', 'MANIFEST.json'), 'w'), indent=1)
print('checks', len(checks), 'not claimed', len(na))
